package socket

import (
	"errors"
	"net"

	"golang.org/x/sys/unix"
)

// ---------------------------------------------------------------------------------------
// C17: net.Addr <-> unix.Sockaddr conversions, real code from go/ssa (including net.IP.To4/To16,
// itod, dtoi). The interface table of the host (net.InterfaceByName/ByIndex) is an environment
// stub: a table with two interfaces whose indices are symbolic. The calls are redirected to the
// stub in a scratch copy of sockaddr.go on BOTH the symbolic and the native-replay side.
// ---------------------------------------------------------------------------------------

var (
	vIfIdx   [2]int
	vIfNames = [2]string{"vif0", "eth1x"}
	vErrNoIf = errors.New("verif: no such network interface")
)

func vAnyIfaceTable() {
	vIfIdx[0] = vNondetInt("if0.index")
	vIfIdx[1] = vNondetInt("if1.index")
	vAssume(vIfIdx[0] >= 1 && vIfIdx[0] < 1<<24 && vIfIdx[1] >= 1 && vIfIdx[1] < 1<<24 && vIfIdx[0] != vIfIdx[1])
}

func vstubInterfaceByName(name string) (*net.Interface, error) {
	for i := 0; i < 2; i++ {
		if name == vIfNames[i] {
			return &net.Interface{Index: vIfIdx[i], Name: vIfNames[i]}, nil
		}
	}
	return nil, vErrNoIf
}

func vstubInterfaceByIndex(index int) (*net.Interface, error) {
	for i := 0; i < 2; i++ {
		if index == vIfIdx[i] {
			return &net.Interface{Index: vIfIdx[i], Name: vIfNames[i]}, nil
		}
	}
	return nil, vErrNoIf
}

func vStrEq(a, b string) bool {
	if len(a) != len(b) {
		return false
	}
	for i := 0; i < len(a); i++ {
		if a[i] != b[i] {
			return false
		}
	}
	return true
}

// vIP16: i-th byte of the 16-byte form of ip (len 4 or 16), written independently of package net
func vIP16(ip []byte, i int) byte {
	if len(ip) == 16 {
		return ip[i]
	}
	if i < 10 {
		return 0
	}
	if i < 12 {
		return 0xff
	}
	return ip[i-12]
}

func vSameIP(a, b []byte) bool {
	if (len(a) != 4 && len(a) != 16) || (len(b) != 4 && len(b) != 16) {
		return false
	}
	i := vNondetInt("ipbyte") // free byte position => all positions
	vAssume(0 <= i && i < 16)
	return vIP16(a, i) == vIP16(b, i)
}

// zone id -> zone string -> zone id, and the string survives another round (numeric zones without an interface,
// and zones naming an interface)
//
// verif: mode=int unwind=12
func VH_C17_ZoneRoundTrip() {
	vAnyIfaceTable()
	id := vNondetUint32("zoneid")
	vAssume(id < 0xFFFFFF) // dtoi (like package net's) refuses numbers >= 0xFFFFFF: outside the claim
	s := ip6ZoneToString(id)
	back := ip6ZoneToInt(s)
	vAssert("C17.zone.roundtrip", uint32(back) == id)
	vAssert("C17.zone.empty_iff_zero", (len(s) == 0) == (id == 0))
	vAssert("C17.zone.string_owns_its_memory", !vReleasedStr(s)) // not a buffer that went back to the byte-slice pool
	s2 := ip6ZoneToString(uint32(back))
	vAssert("C17.zone.string_stable", vStrEq(s, s2))
	vReach("C17.zone.end")
}

// vAnyZone: "", the name of one of the two interfaces, or the numeric form of an arbitrary id without interface
func vAnyZone() string {
	k := vNondetInt("zonekind")
	vAssume(0 <= k && k <= 3)
	switch k {
	case 0:
		return ""
	case 1:
		return vIfNames[0]
	case 2:
		return vIfNames[1]
	}
	// numeric zone: an arbitrary decimal digit string (no leading zero) that names no interface of the table
	L := vNondetInt("zonedigits")
	vAssume(1 <= L && L <= vCfg("zone_digits", 4))
	d := vNondetBytes("zonenum", L)
	val := 0
	for i := 0; i < L; i++ {
		vAssume('0' <= d[i] && d[i] <= '9' && (i > 0 || d[i] != '0'))
		val = val*10 + int(d[i]-'0')
	}
	vAssume(val < 0xFFFFFF && val != vIfIdx[0] && val != vIfIdx[1])
	return string(d)
}

func vAnyIP() net.IP {
	n := vNondetInt("iplen")
	vAssume(0 <= n && n <= 20)
	if n == 0 && vNondetBool("ipnil") {
		return nil
	}
	return net.IP(vNondetBytes("ip", n)) // n == 0: a non-nil, zero-length IP (invalid length)
}

// verif: mode=int unwind=12
func VH_C17_TCPRoundTrip() {
	vAnyIfaceTable()
	ip := vAnyIP()
	port := vNondetInt("port")
	vAssume(0 <= port && port <= 65535)
	zone := vAnyZone()
	addr := &net.TCPAddr{IP: ip, Port: port, Zone: zone}
	sa := TCPAddrToSockaddr(addr)
	if ip != nil && len(ip) != 4 && len(ip) != 16 {
		vAssert("C17.tcp.invalid_ip_nil", sa == nil)
		vAssert("C17.tcp.invalid_ip_nil_via_iface", NetAddrToSockaddr(addr) == nil)
		vReach("C17.tcp.invalid.end")
		return
	}
	vAssert("C17.tcp.valid_nonnil", sa != nil)
	back, ok := SockaddrToTCPOrUnixAddr(sa).(*net.TCPAddr)
	vAssert("C17.tcp.back_type", ok && back != nil)
	vAssert("C17.tcp.port", back.Port == port)
	if len(ip) != 0 {
		vAssert("C17.tcp.ip", vSameIP(back.IP, ip))
		vAssert("C17.tcp.zone_owns_its_memory", !vReleasedStr(back.Zone))
		_, is4 := sa.(*unix.SockaddrInet4)
		if !is4 {
			vAssert("C17.tcp.zone", vStrEq(back.Zone, zone))
		} else {
			vAssert("C17.tcp.v4_has_no_zone", len(zone) == 0 && len(back.Zone) == 0)
		}
	}
	vReach("C17.tcp.end")
}

// verif: mode=int unwind=12
func VH_C17_UDPRoundTrip() {
	vAnyIfaceTable()
	ip := vAnyIP()
	port := vNondetInt("port")
	vAssume(0 <= port && port <= 65535)
	zone := vAnyZone()
	addr := &net.UDPAddr{IP: ip, Port: port, Zone: zone}
	sa := UDPAddrToSockaddr(addr)
	if ip != nil && len(ip) != 4 && len(ip) != 16 {
		vAssert("C17.udp.invalid_ip_nil", sa == nil)
		vReach("C17.udp.invalid.end")
		return
	}
	back, ok := SockaddrToUDPAddr(sa).(*net.UDPAddr)
	vAssert("C17.udp.back_type", ok && back != nil)
	vAssert("C17.udp.port", back.Port == port)
	if len(ip) != 0 {
		vAssert("C17.udp.ip", vSameIP(back.IP, ip))
		if _, is4 := sa.(*unix.SockaddrInet4); !is4 {
			vAssert("C17.udp.zone", vStrEq(back.Zone, zone))
		}
	}
	vReach("C17.udp.end")
}

// kernel form -> net.Addr -> kernel form (what accept4/recvfrom hand to the framework)
//
// verif: mode=int unwind=12
func VH_C17_SockaddrRoundTrip() {
	vAnyIfaceTable()
	port := vNondetInt("port")
	vAssume(0 <= port && port <= 65535)
	i := vNondetInt("i")
	if vNondetBool("v6") {
		sa := &unix.SockaddrInet6{Port: port, ZoneId: vNondetUint32("zoneid")}
		vAssume(sa.ZoneId < 0xFFFFFF)
		copy(sa.Addr[:], vNondetBytes("addr", 16))
		vAssume(0 <= i && i < 16)
		a := SockaddrToTCPOrUnixAddr(sa).(*net.TCPAddr)
		vAssert("C17.sa6.ip", len(a.IP) == 16 && a.IP[i] == sa.Addr[i] && a.Port == port)
		vAssert("C17.sa6.zone_owns_its_memory", !vReleasedStr(a.Zone))
		sa2 := TCPAddrToSockaddr(a)
		if s6, ok := sa2.(*unix.SockaddrInet6); ok {
			vAssert("C17.sa6.back", s6.Port == port && s6.ZoneId == sa.ZoneId && s6.Addr[i] == sa.Addr[i])
		} else {
			// a v4-mapped address without zone legitimately comes back as AF_INET
			s4, ok4 := sa2.(*unix.SockaddrInet4)
			vAssert("C17.sa6.back_v4mapped", ok4 && sa.ZoneId == 0 && s4.Port == port && (i < 12 || s4.Addr[i-12] == sa.Addr[i]))
		}
		u := SockaddrToUDPAddr(sa).(*net.UDPAddr)
		vAssert("C17.sa6.udp", len(u.IP) == 16 && u.IP[i] == sa.Addr[i] && u.Port == port && vStrEq(u.Zone, a.Zone))
	} else {
		sa := &unix.SockaddrInet4{Port: port}
		copy(sa.Addr[:], vNondetBytes("addr", 4))
		vAssume(0 <= i && i < 4)
		a := SockaddrToTCPOrUnixAddr(sa).(*net.TCPAddr)
		vAssert("C17.sa4.ip", len(a.IP) == 4 && a.IP[i] == sa.Addr[i] && a.Port == port && len(a.Zone) == 0)
		s4, ok := TCPAddrToSockaddr(a).(*unix.SockaddrInet4)
		vAssert("C17.sa4.back", ok && s4.Port == port && s4.Addr[i] == sa.Addr[i])
	}
	vReach("C17.sa.end")
}

// verif: mode=int
func VH_C17_Unix() {
	name := string(vNondetBytes("path", 5))
	k := vNondetInt("net")
	vAssume(0 <= k && k <= 3)
	nets := [4]string{"unix", "unixgram", "unixpacket", "tcp"}
	addr := &net.UnixAddr{Name: name, Net: nets[k]}
	sa, t := UnixAddrToSockaddr(addr)
	if k == 3 {
		vAssert("C17.unix.unsupported_nil", sa == nil && t == 0)
		vReach("C17.unix.unsupported.end")
		return
	}
	su, ok := sa.(*unix.SockaddrUnix)
	vAssert("C17.unix.name", ok && vStrEq(su.Name, name))
	back, ok2 := SockaddrToTCPOrUnixAddr(sa).(*net.UnixAddr)
	vAssert("C17.unix.back", ok2 && vStrEq(back.Name, name) && vStrEq(back.Net, "unix"))
	vAssert("C17.unix.udp_nil", SockaddrToUDPAddr(sa) == nil)
	vReach("C17.unix.end")
}
