// Package vk (added by overlay only): a ghost kernel for the loop-step harnesses.
// Every system call the I/O path makes is redirected here (in scratch copies of the calling
// files, on the symbolic AND on the native-replay side). Results are nondeterministic inside
// the man-page contract; the ghost state (pending inbound bytes, bytes accepted for the wire,
// descriptor ownership ledger, epoll interest) is what the property oracles are stated over.
package vk

import (
	"golang.org/x/sys/unix"
)

const NFD = 16

// Owner of a descriptor number
const (
	Free      = 0 // not open
	Framework = 1 // opened/owned by gnet on behalf of a connection, listener or poller
	Foreign   = 2 // open, but belongs to somebody else in the process (the number was re-used)
	User      = 3 // handed to the user (Dup): the framework must never close it
)

type Sock struct {
	Owner   int
	Stream  bool
	IsEpoll bool
	IsEvent bool
	Listen  bool

	// inbound stream: bytes the peer has sent and that the kernel still holds
	Pending []byte
	Roff    int
	Writable bool // ghost: EPOLLOUT was just reported for this socket, the next write accepts at least one byte
	Fin     bool // orderly close by the peer behind the pending bytes
	InEdge  bool // ghost: new data arrived since the last EAGAIN => an ET edge will be reported again
	ReadErr unix.Errno

	// outbound stream: ghost wire = everything write/writev accepted, watched at one free index
	WireLen      int
	WatchK       int
	WatchB       byte
	WatchOK      bool
	Full         bool // last write was short or EAGAIN: socket buffer full (an EPOLLOUT edge is due later)
	EagainStreak int
	NoSpace      bool // harness knob: the peer does not read at all, every write says EAGAIN
	AcceptAll    bool // harness knob: the peer reads everything at once, every write is accepted completely
	WriteErr     unix.Errno
	PeerGone     bool

	// datagram socket: one datagram waiting
	DgramReady bool
	Dgram      []byte
	DgramFrom  unix.Sockaddr
	SentCount  int
	SentLen    int
	SentTo     unix.Sockaddr
	SentWatchB byte

	// listener: one connection waiting in the accept queue
	AcceptReady bool
	AcceptFD    int
	AcceptFrom  unix.Sockaddr
	AcceptErr   unix.Errno

	// epoll interest (registered in epoll instance EpollOf)
	Registered bool
	Events     uint32

	// ledger
	Closes int
	Reads  int
	Writes int
}

var (
	S [NFD]Sock
	// ET mode of the engine under test (decides how strict the read/write stubs are)
	EdgeTriggered bool
	// fault injection (C18): number of system calls that may still fail with an injected errno
	FaultBudget int
	FaultCount  int
	FaultFD     = -1
	FaultCall   string
	// ledger of calls on descriptors the framework does not own (C07)
	ForeignTouch int
	DoubleClose  int
	CtlOnClosed  int
	// bound on reads per event
	MaxReads = 3
	// bound on write/writev calls per descriptor per event
	MaxWrites = 3
	// eventfd counter
	EventfdWrites int
	// harness hook invoked at the beginning of every close(2)
	CloseHook func(fd int)
)

var faultErrnos = [8]unix.Errno{unix.ECONNRESET, unix.EPIPE, unix.ETIMEDOUT, unix.EBADF, unix.ENOMEM, unix.EINVAL, unix.EINTR, unix.ENOBUFS}

func Reset() {
	for i := range S {
		S[i] = Sock{}
	}
	EdgeTriggered = false
	FaultBudget, FaultCount, FaultFD, FaultCall = 0, 0, -1, ""
	FaultedFD = [NFD]bool{}
	ForeignTouch, DoubleClose, CtlOnClosed = 0, 0, 0
	MaxReads = 3
	MaxWrites = 3
	EventfdWrites = 0
	CloseHook = nil
	WaitCalls, WaitHook, Batches = 0, nil, nil
	AllowStaleDel, StaleDels = false, 0
}

func owned(fd int) bool { return fd >= 0 && fd < NFD && S[fd].Owner == Framework }

// touch: ledger of every I/O or poll-control call. Touching a number the framework does not own is the C07 violation.
func touch(fd int, call string) {
	if !owned(fd) {
		ForeignTouch++
		vAssert("C07.syscall_only_on_owned_descriptor", false)
	}
}

var FaultedFD [NFD]bool // descriptors on whose behalf an injected failure happened

// fault: may this call fail with an injected errno?
func fault(fd int, call string) (unix.Errno, bool) {
	if FaultBudget <= 0 {
		return 0, false
	}
	if !vNondetBool("fault." + call) {
		return 0, false
	}
	k := vNondetInt("fault.errno")
	vAssume(0 <= k && k < len(faultErrnos))
	FaultBudget--
	FaultCount++
	FaultFD = fd
	FaultCall = call
	if fd >= 0 && fd < NFD {
		FaultedFD[fd] = true
	}
	return faultErrnos[k], true
}

// ---------------------------------------------------------------------------- stream read
func Read(fd int, p []byte) (int, error) {
	touch(fd, "read")
	if !owned(fd) {
		return -1, unix.EBADF
	}
	s := &S[fd]
	if s.IsEvent {
		if EventfdWrites == 0 {
			return -1, unix.EAGAIN
		}
		EventfdWrites = 0
		return 8, nil
	}
	s.Reads++
	if e, ok := fault(fd, "read"); ok {
		if e == unix.EINTR {
			e = unix.ECONNRESET
		}
		return -1, e
	}
	if s.ReadErr != 0 {
		return -1, s.ReadErr
	}
	avail := len(s.Pending) - s.Roff
	if avail == 0 {
		if s.Fin {
			return 0, nil
		}
		s.InEdge = false
		return -1, unix.EAGAIN
	}
	// environment bound: at most MaxReads successful reads per event are explored
	vAssume(s.Reads <= MaxReads)
	n := avail
	if n > len(p) {
		n = len(p)
	}
	if !EdgeTriggered && n > 1 && vNondetBool("read.short") {
		// level-triggered: the kernel may return any non-empty prefix (the level re-notifies)
		m := vNondetInt("read.n")
		vAssume(1 <= m && m <= n)
		n = m
	}
	copy(p, s.Pending[s.Roff:s.Roff+n])
	s.Roff += n
	return n, nil
}

// ---------------------------------------------------------------------------- stream write
func accept(s *Sock, off int, b []byte) {
	// record the bytes b as accepted at wire offsets [s.WireLen+off, ...)
	base := s.WireLen + off
	if base <= s.WatchK && s.WatchK < base+len(b) {
		s.WatchB = b[s.WatchK-base]
		s.WatchOK = true
	}
}

func writeBudget(s *Sock, fd int, want int, call string) (int, unix.Errno) {
	if e, ok := fault(fd, call); ok {
		if e == unix.EINTR {
			e = unix.EPIPE
		}
		return -1, e
	}
	if s.WriteErr != 0 {
		return -1, s.WriteErr
	}
	if want == 0 {
		return 0, 0
	}
	// environment bound: at most MaxWrites write/writev calls per descriptor per event are explored
	vAssume(s.Writes <= MaxWrites)
	if s.NoSpace {
		s.Full = true
		s.EagainStreak++
		vAssert("C18.no_busy_retry_after_eagain", s.EagainStreak <= 2)
		return -1, unix.EAGAIN
	}
	if s.Full && !s.Writable && !vNondetBool("write.space_freed") {
		// the socket buffer is still full: writing again before the kernel reports writability is a busy retry
		s.EagainStreak++
		vAssert("C18.no_busy_retry_after_eagain", s.EagainStreak <= 2)
		return -1, unix.EAGAIN
	}
	s.Full = false
	if s.AcceptAll {
		s.EagainStreak = 0
		return want, 0
	}
	n := vNondetInt("write.n")
	lo := 0
	if s.Writable {
		// the kernel has just reported the socket writable (EPOLLOUT): at least one byte fits
		lo, s.Writable = 1, false
	}
	vAssume(lo <= n && n <= want)
	if n == 0 {
		s.Full = true
		s.EagainStreak++
		vAssert("C18.no_busy_retry_after_eagain", s.EagainStreak <= 2)
		return -1, unix.EAGAIN
	}
	s.EagainStreak = 0
	if n < want {
		s.Full = true // a short write means the socket buffer filled up
	}
	return n, 0
}

func Write(fd int, p []byte) (int, error) {
	touch(fd, "write")
	if !owned(fd) {
		return -1, unix.EBADF
	}
	s := &S[fd]
	if s.IsEvent {
		EventfdWrites++
		return 8, nil
	}
	s.Writes++
	n, e := writeBudget(s, fd, len(p), "write")
	if e != 0 {
		return -1, e
	}
	accept(s, 0, p[:n])
	s.WireLen += n
	return n, nil
}

const IovMax = 1024

func Writev(fd int, iov [][]byte) (int, error) {
	touch(fd, "writev")
	if !owned(fd) {
		return -1, unix.EBADF
	}
	s := &S[fd]
	s.Writes++
	if len(iov) > IovMax {
		return -1, unix.EINVAL // writev(2): EINVAL when iovcnt exceeds IOV_MAX
	}
	total := 0
	for _, b := range iov {
		total += len(b)
	}
	n, e := writeBudget(s, fd, total, "writev")
	if e != 0 {
		return -1, e
	}
	off := 0
	for _, b := range iov {
		if off >= n {
			break
		}
		take := len(b)
		if take > n-off {
			take = n - off
		}
		accept(s, off, b[:take])
		off += take
	}
	s.WireLen += n
	return n, nil
}

// ---------------------------------------------------------------------------- close
func Close(fd int) error {
	if CloseHook != nil {
		CloseHook(fd)
	}
	if fd < 0 || fd >= NFD {
		return unix.EBADF
	}
	s := &S[fd]
	switch s.Owner {
	case Framework:
		s.Closes++
		s.Owner = Free
		s.Registered = false // the kernel drops a closed descriptor from every epoll set
		if _, ok := fault(fd, "close"); ok {
			return unix.EINTR // close(2) may report an error, the descriptor is gone nevertheless
		}
		return nil
	case Free:
		DoubleClose++
		vAssert("C07.no_double_close", false)
		return unix.EBADF
	default:
		ForeignTouch++
		vAssert("C07.never_closes_a_descriptor_it_does_not_own", false)
		return nil
	}
}

// ---------------------------------------------------------------------------- epoll_ctl
func EpollCtl(epfd, op, fd int, ev *unix.EpollEvent) error {
	if !owned(epfd) || !S[epfd].IsEpoll {
		vAssert("C07.epoll_ctl_on_own_epoll_instance", false)
		return unix.EBADF
	}
	if AllowStaleDel && op == unix.EPOLL_CTL_DEL && fd >= 0 && fd < NFD && S[fd].Owner != Framework {
		// the reactor's answer to an event for a number that is not in its connection set: epoll_ctl(DEL). On a
		// closed number the kernel says EBADF, on somebody else's descriptor ENOENT (it is not in this epoll set);
		// neither has any effect on the descriptor.
		StaleDels++
		if S[fd].Owner == Free {
			return unix.EBADF
		}
		return unix.ENOENT
	}
	if fd < 0 || fd >= NFD || S[fd].Owner == Free {
		CtlOnClosed++
		vAssert("C07.epoll_ctl_only_on_open_descriptor", false)
		return unix.EBADF
	}
	if S[fd].Owner != Framework {
		ForeignTouch++
		vAssert("C07.syscall_only_on_owned_descriptor", false)
	}
	if e, ok := fault(fd, "epoll_ctl"); ok {
		if e == unix.EINTR {
			e = unix.ENOMEM
		}
		return e
	}
	s := &S[fd]
	switch op {
	case unix.EPOLL_CTL_ADD:
		if s.Registered {
			return unix.EEXIST
		}
		s.Registered = true
		s.Events = ev.Events
	case unix.EPOLL_CTL_MOD:
		if !s.Registered {
			return unix.ENOENT
		}
		s.Events = ev.Events
	case unix.EPOLL_CTL_DEL:
		if !s.Registered {
			return unix.ENOENT
		}
		s.Registered = false
		s.Events = 0
	}
	return nil
}

// ---------------------------------------------------------------------------- datagrams
func Recvfrom(fd int, p []byte, flags int) (int, unix.Sockaddr, error) {
	touch(fd, "recvfrom")
	if !owned(fd) {
		return -1, nil, unix.EBADF
	}
	s := &S[fd]
	s.Reads++
	if e, ok := fault(fd, "recvfrom"); ok {
		return -1, nil, e
	}
	if !s.DgramReady {
		return -1, nil, unix.EAGAIN
	}
	s.DgramReady = false
	n := copy(p, s.Dgram) // a datagram longer than the buffer is truncated by the kernel
	return n, s.DgramFrom, nil
}

func sent(s *Sock, p []byte, to unix.Sockaddr) {
	s.SentCount++
	s.SentLen = len(p)
	s.SentTo = to
	if s.WatchK < len(p) {
		s.SentWatchB = p[s.WatchK]
		s.WatchOK = true
	}
}

func Sendto(fd int, p []byte, flags int, to unix.Sockaddr) error {
	touch(fd, "sendto")
	if !owned(fd) {
		return unix.EBADF
	}
	s := &S[fd]
	if e, ok := fault(fd, "sendto"); ok {
		return e
	}
	sent(s, p, to)
	return nil
}

func Send(fd int, p []byte, flags int) error {
	touch(fd, "send")
	if !owned(fd) {
		return unix.EBADF
	}
	s := &S[fd]
	if e, ok := fault(fd, "send"); ok {
		return e
	}
	sent(s, p, nil)
	return nil
}

// ---------------------------------------------------------------------------- accept
func Accept(fd int) (int, unix.Sockaddr, error) {
	touch(fd, "accept")
	if !owned(fd) || !S[fd].Listen {
		return -1, nil, unix.EBADF
	}
	s := &S[fd]
	if s.AcceptErr != 0 {
		e := s.AcceptErr
		s.AcceptErr = 0
		return -1, nil, e
	}
	if !s.AcceptReady {
		return -1, nil, unix.EAGAIN
	}
	s.AcceptReady = false
	nfd := s.AcceptFD
	S[nfd] = Sock{Owner: Framework, Stream: true}
	return nfd, s.AcceptFrom, nil
}

// Dup hands a descriptor to the user
func Dup(fd int) (int, error) {
	touch(fd, "dup")
	for i := NFD - 1; i >= 0; i-- {
		if S[i].Owner == Free {
			S[i] = Sock{Owner: User, Stream: S[fd].Stream}
			return i, nil
		}
	}
	return -1, unix.EMFILE
}

// DupIn: the framework duplicates a descriptor the user handed in (Client.Enroll / EventLoop.Enroll); the copy is a
// descriptor the framework created and must close exactly once
func DupIn(fd int) (int, error) {
	if fd < 0 || fd >= NFD || S[fd].Owner != User {
		vAssert("C07.dup_source_is_the_users_descriptor", false)
		return -1, unix.EBADF
	}
	if _, ok := fault(fd, "dup"); ok {
		return -1, unix.EMFILE
	}
	for i := NFD - 1; i >= 0; i-- {
		if S[i].Owner == Free {
			S[i] = Sock{Owner: Framework, Stream: S[fd].Stream}
			return i, nil
		}
	}
	return -1, unix.EMFILE
}

// SockOpt: any setsockopt(2) on a descriptor (value irrelevant)
func SockOpt(fd int, _ int) error {
	touch(fd, "setsockopt")
	if e, ok := fault(fd, "setsockopt"); ok {
		if e == unix.EINTR {
			e = unix.ENOBUFS
		}
		return e
	}
	return nil
}

// ---------------------------------------------------------------------------- epoll_wait (engine A: scripted batches)
var (
	WaitCalls     int
	WaitHook      func(call int) // runs at the start of every epoll_wait (what other goroutines did meanwhile)
	Batches       [][]unix.EpollEvent
	AllowStaleDel bool
	StaleDels     int
)

// EpollWait returns the harness's next batch of ready events; when the script is exhausted the epoll instance fails
// (the loop under test is expected to have been asked to stop before that)
func EpollWait(epfd int, events []unix.EpollEvent, msec int) (int, error) {
	if !owned(epfd) || !S[epfd].IsEpoll {
		vAssert("C07.epoll_wait_on_own_epoll_instance", false)
		return -1, unix.EBADF
	}
	WaitCalls++
	if WaitHook != nil {
		WaitHook(WaitCalls)
	}
	if WaitCalls > len(Batches) {
		return -1, unix.EBADF
	}
	b := Batches[WaitCalls-1]
	n := copy(events, b)
	return n, nil
}
