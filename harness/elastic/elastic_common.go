package elastic

import (
	"math"

	"github.com/panjf2000/gnet/v2/pkg/buffer/linkedlist"
	"github.com/panjf2000/gnet/v2/pkg/buffer/ring"
)

// helpers shared by the C10 harnesses and (through export.go) by harnesses of package gnet

func vAnyRB(tag string) RingBuffer {
	var b RingBuffer
	if vNondetBool(tag + ".present") {
		b.rb = ring.VAnyRing(tag)
	}
	return b
}

func vAnyBuffer() *Buffer {
	mb := &Buffer{}
	mb.maxStaticBytes = vNondetInt("max")
	vAssume(1 <= mb.maxStaticBytes && mb.maxStaticBytes <= vMaxLen())
	mb.ringBuffer = vAnyRB("rb")
	mb.listBuffer = *linkedlist.VAnyList("l")
	vAssume(mb.ringBuffer.Buffered()+mb.listBuffer.Buffered() <= math.MaxInt32)
	return mb
}

func vInv(mb *Buffer) bool {
	return (mb.ringBuffer.rb == nil || ring.VRingInv(mb.ringBuffer.rb)) && linkedlist.VListInv(&mb.listBuffer) &&
		mb.Buffered() == mb.ringBuffer.Buffered()+mb.listBuffer.Buffered() && mb.IsEmpty() == (mb.Buffered() == 0)
}

// vEAt: k-th byte of the abstract content
func vEAt(mb *Buffer, k int) byte {
	rn := mb.ringBuffer.Buffered()
	if k < rn {
		return ring.VAt(mb.ringBuffer.rb, k)
	}
	return linkedlist.VLAt(&mb.listBuffer, k-rn)
}

func vCatLen(bs [][]byte) int {
	n := 0
	for _, b := range bs {
		n += len(b)
	}
	return n
}

func vCatAt(bs [][]byte, k int) byte {
	for _, b := range bs {
		if k < len(b) {
			return b[k]
		}
		k -= len(b)
	}
	vAssert("C10.harness.cat_index_in_range", false)
	return 0
}

func vRBInv(b *RingBuffer) bool { return b.rb == nil || ring.VRingInv(b.rb) }
