package elastic

import "github.com/panjf2000/gnet/v2/pkg/buffer/ring"

// exported constructors/observers for harnesses in package gnet

func VAnyRB(tag string) RingBuffer { return vAnyRB(tag) }
func VAnyBuffer() *Buffer          { return vAnyBuffer() }
func VBufInv(mb *Buffer) bool      { return vInv(mb) }
func VRBInv(b *RingBuffer) bool    { return vRBInv(b) }
func VEAt(mb *Buffer, k int) byte  { return vEAt(mb, k) }
func VRBAt(b *RingBuffer, k int) byte {
	return ring.VAt(b.rb, k)
}

func VListInUse(mb *Buffer) bool { return !mb.listBuffer.IsEmpty() }

// VSimpleBuffer: either empty or exactly one pending list segment (ring absent); a cheap stand-in for "some output
// is pending" where the buffer's internal shape is not the subject
func VSimpleBuffer(pending bool) *Buffer {
	mb := &Buffer{}
	mb.maxStaticBytes = vNondetInt("max")
	vAssume(1 <= mb.maxStaticBytes && mb.maxStaticBytes <= vMaxLen())
	if pending {
		n := vNondetInt("pend.len")
		vAssume(1 <= n && n <= vMaxLen())
		mb.listBuffer.Append(vNondetBytes("pend", n))
	}
	return mb
}
