package elastic

import (
	"errors"
	"io"
	"math"

	"github.com/panjf2000/gnet/v2/pkg/buffer/ring"
)

// ---------------------------------------------------------------------------------------
// C10: one inductive step of every elastic.Buffer / elastic.RingBuffer operation from an
// arbitrary valid state: static limit in [1, vMaxLen]; ring absent, or any valid ring (C09's
// invariant); list of 0..vCfg("nodes") segments. Abstract value = ring content ++ list content.
// ---------------------------------------------------------------------------------------

// verif: mode=int unwind=6
func VH_C10_Write() {
	mb := vAnyBuffer()
	n := vNondetInt("n")
	vAssume(0 <= n && n <= vMaxLen())
	p := vNondetBytes("p", n)
	L0 := mb.Buffered()
	k := vNondetInt("k")
	vAssume(0 <= k && k < L0+n)
	var want byte
	if k < L0 {
		want = vEAt(mb, k)
	} else {
		want = p[k-L0]
	}
	m, err := mb.Write(p)
	vAssert("C10.write.count", m == n && err == nil)
	vAssert("C10.write.len", mb.Buffered() == L0+n)
	vAssert("C10.write.content", vEAt(mb, k) == want)
	vAssert("C10.write.inv", vInv(mb))
	vReach("C10.write.end")
}

// verif: mode=int unwind=6 tier=thorough
func VH_C10_Writev() {
	vWritev(false)
}

// quick variant: the ring has already reached the static limit (or the list is in use), i.e. the ring/list
// switch-over; a ring that still grows under Writev is explored in the thorough tier only (path count).
//
// verif: mode=int unwind=6
func VH_C10_WritevAtLimit() {
	vWritev(true)
}

func vWritev(atLimit bool) {
	mb := vAnyBuffer()
	if atLimit {
		vAssume(mb.ringBuffer.Len() >= mb.maxStaticBytes || !mb.listBuffer.IsEmpty())
	}
	maxSegs := vCfg("segs", 3)
	if !atLimit && maxSegs > 2 {
		// a ring that still grows under Writev: 3 segments made single z3 queries run past the wall-clock watchdog
		// (thorough run on the unchanged tree: INCONCLUSIVE), so this variant stays at 2 segments
		maxSegs = 2
	}
	segs := vNondetInt("segs")
	vAssume(1 <= segs && segs <= maxSegs)
	var bs [][]byte
	total := 0
	for i := 0; i < segs; i++ {
		n := vNondetInt("n")
		vAssume(0 <= n && n <= vMaxLen())
		bs = append(bs, vNondetBytes("p", n))
		total += n
	}
	L0 := mb.Buffered()
	k := vNondetInt("k")
	vAssume(0 <= k && k < L0+total)
	var want byte
	if k < L0 {
		want = vEAt(mb, k)
	} else {
		want = vCatAt(bs, k-L0)
	}
	m, err := mb.Writev(bs)
	vAssert("C10.writev.count", m == total && err == nil)
	vAssert("C10.writev.len", mb.Buffered() == L0+total)
	vAssert("C10.writev.content", vEAt(mb, k) == want)
	vAssert("C10.writev.inv", vInv(mb))
	vReach("C10.writev.end")
}

// verif: mode=int
func VH_C10_Read() {
	mb := vAnyBuffer()
	n := vNondetInt("n")
	vAssume(0 <= n && n <= vMaxLen())
	p := vNondetBytes("p", n)
	L0 := mb.Buffered()
	exp := n
	if L0 < exp {
		exp = L0
	}
	k := vNondetInt("k")
	vAssume(0 <= k && k < L0)
	old := vEAt(mb, k)
	m, _ := mb.Read(p)
	vAssert("C10.read.count", m == exp)
	if k < exp {
		vAssert("C10.read.delivered", p[k] == old)
	} else {
		vAssert("C10.read.kept", vEAt(mb, k-exp) == old)
	}
	vAssert("C10.read.len", mb.Buffered() == L0-exp)
	vAssert("C10.read.inv", vInv(mb))
	vReach("C10.read.end")
}

// verif: mode=int
func VH_C10_Peek() {
	mb := vAnyBuffer()
	n := vNondetInt("n")
	vAssume(-vMaxLen() <= n && n <= 4*vMaxLen())
	L0 := mb.Buffered()
	k := vNondetInt("k")
	vAssume(0 <= k && k < L0)
	old := vEAt(mb, k)
	bs, err := mb.Peek(n)
	if n > L0 && n != math.MaxInt32 {
		vAssert("C10.peek.short", err == io.ErrShortBuffer)
	} else {
		exp := L0
		if n > 0 && n != math.MaxInt32 {
			exp = n
		}
		vAssert("C10.peek.noerr", err == nil)
		vAssert("C10.peek.count", vCatLen(bs) == exp)
		if k < exp {
			vAssert("C10.peek.bytes", vCatAt(bs, k) == old)
		}
	}
	vAssert("C10.peek.nonconsuming", mb.Buffered() == L0 && vEAt(mb, k) == old)
	vAssert("C10.peek.inv", vInv(mb))
	vReach("C10.peek.end")
}

// verif: mode=int
func VH_C10_Discard() {
	mb := vAnyBuffer()
	n := vNondetInt("n")
	vAssume(-vMaxLen() <= n && n <= 4*vMaxLen())
	L0 := mb.Buffered()
	exp := 0
	if n > 0 {
		exp = n
		if L0 < exp {
			exp = L0
		}
	}
	k := vNondetInt("k")
	vAssume(0 <= k && k < L0)
	old := vEAt(mb, k)
	d, _ := mb.Discard(n)
	vAssert("C10.discard.count", d == exp)
	vAssert("C10.discard.len", mb.Buffered() == L0-exp)
	if k >= exp {
		vAssert("C10.discard.kept", vEAt(mb, k-exp) == old)
	}
	vAssert("C10.discard.inv", vInv(mb))
	vReach("C10.discard.end")
}

// verif: mode=int
func VH_C10_ResetRelease() {
	mb := vAnyBuffer()
	had := mb.ringBuffer.rb != nil
	if vNondetBool("release") {
		mb.Release()
		vAssert("C10.release.ring_returned", mb.ringBuffer.rb == nil)
		if c := vRbPutCount(); c >= 0 {
			vAssert("C10.release.put_once", (had && c == 1) || (!had && c == 0))
		}
	} else {
		m := vNondetInt("newmax")
		old := mb.maxStaticBytes
		mb.Reset(m)
		vAssert("C10.reset.limit", (m > 0 && mb.maxStaticBytes == m) || (m <= 0 && mb.maxStaticBytes == old))
	}
	vAssert("C10.reset.empty", mb.Buffered() == 0 && mb.IsEmpty())
	vAssert("C10.reset.inv", vInv(mb))
	vReach("C10.reset.end")
}

// ---------------------------------------------------------------------------------------
var vErrOther = errors.New("verif: injected I/O error")

type vReader struct {
	maxCalls int
	calls    int
	total    int
	kk       int
	got      byte
	have     bool
	failed   bool
}

func (r *vReader) Read(p []byte) (int, error) {
	r.calls++
	m := vNondetInt("rd.m")
	vAssume(0 <= m && m <= len(p))
	d := vNondetBytes("rd.data", m)
	copy(p, d)
	if r.total <= r.kk && r.kk < r.total+m {
		r.got = d[r.kk-r.total]
		r.have = true
	}
	r.total += m
	e := vNondetInt("rd.err")
	vAssume(0 <= e && e <= 2)
	if r.calls >= r.maxCalls && e == 0 {
		e = 1 // environment bound: the reader ends after maxCalls calls
	}
	if e == 1 {
		return m, io.EOF
	}
	if e == 2 {
		r.failed = true
		return m, vErrOther
	}
	return m, nil
}

type vWriter struct {
	total  int
	kk     int
	got    byte
	have   bool
	failed bool
}

func (w *vWriter) Write(p []byte) (int, error) {
	m := vNondetInt("wr.m")
	vAssume(0 <= m && m <= len(p))
	if w.total <= w.kk && w.kk < w.total+m {
		w.got = p[w.kk-w.total]
		w.have = true
	}
	w.total += m
	if vNondetBool("wr.fail") {
		w.failed = true
		return m, vErrOther
	}
	return m, nil
}

// verif: mode=int unwind=6
func VH_C10_ReadFrom() {
	mb := vAnyBuffer()
	L0 := mb.Buffered()
	k := vNondetInt("k")
	vAssume(0 <= k && k <= 4*vMaxLen())
	var old byte
	if k < L0 {
		old = vEAt(mb, k)
	}
	rd := &vReader{maxCalls: vCfg("reader_calls", 2), kk: k - L0}
	n, err := mb.ReadFrom(rd)
	vAssert("C10.readfrom.count", n == int64(rd.total))
	vAssert("C10.readfrom.len", mb.Buffered() == L0+rd.total)
	if k < L0 {
		vAssert("C10.readfrom.old", vEAt(mb, k) == old)
	} else if k < L0+rd.total {
		vAssert("C10.readfrom.watched", rd.have)
		vAssert("C10.readfrom.new", vEAt(mb, k) == rd.got)
	}
	vAssert("C10.readfrom.err", (err == nil) == !rd.failed)
	vAssert("C10.readfrom.inv", vInv(mb))
	vReach("C10.readfrom.end")
}

// verif: mode=int
func VH_C10_WriteTo() {
	mb := vAnyBuffer()
	L0 := mb.Buffered()
	k := vNondetInt("k")
	vAssume(0 <= k && k < L0)
	old := vEAt(mb, k)
	wr := &vWriter{kk: k}
	n, err := mb.WriteTo(wr)
	t := wr.total
	vAssert("C10.writeto.count", n == int64(t))
	vAssert("C10.writeto.len", mb.Buffered() == L0-t)
	if k < t {
		vAssert("C10.writeto.watched", wr.have)
		vAssert("C10.writeto.delivered", wr.got == old)
	} else {
		vAssert("C10.writeto.kept", vEAt(mb, k-t) == old)
	}
	if wr.failed {
		vAssert("C10.writeto.err_passthrough", err == vErrOther)
	} else if t < L0 {
		vAssert("C10.writeto.err_short", err == io.ErrShortWrite)
	} else {
		vAssert("C10.writeto.err_nil", err == nil)
	}
	vAssert("C10.writeto.inv", vInv(mb))
	vReach("C10.writeto.end")
}

// ----------------------------------------------------------------------- elastic.RingBuffer

// verif: mode=int unwind=6
func VH_C10_RB_Write() {
	b := vAnyRB("rb")
	n := vNondetInt("n")
	vAssume(0 <= n && n <= vMaxLen())
	p := vNondetBytes("p", n)
	L0 := b.Buffered()
	k := vNondetInt("k")
	vAssume(0 <= k && k < L0+n)
	var want byte
	if k < L0 {
		want = ring.VAt(b.rb, k)
	} else {
		want = p[k-L0]
	}
	m, err := b.Write(p)
	vAssert("C10.rb.write.count", m == n && err == nil)
	vAssert("C10.rb.write.len", b.Buffered() == L0+n)
	vAssert("C10.rb.write.content", ring.VAt(b.rb, k) == want)
	vAssert("C10.rb.write.acct", b.IsEmpty() == (b.Buffered() == 0) && b.Buffered()+b.Available() == b.Cap())
	vAssert("C10.rb.write.inv", vRBInv(&b))
	vReach("C10.rb.write.end")
}

// verif: mode=int
func VH_C10_RB_ReadDiscard() {
	b := vAnyRB("rb")
	had := b.rb != nil
	n := vNondetInt("n")
	vAssume(0 <= n && n <= vMaxLen())
	L0 := b.Buffered()
	exp := n
	if L0 < exp {
		exp = L0
	}
	k := vNondetInt("k")
	vAssume(0 <= k && k < L0)
	old := ring.VAt(b.rb, k)
	if vNondetBool("discard") {
		d, _ := b.Discard(n)
		vAssert("C10.rb.discard.count", d == exp)
	} else {
		p := vNondetBytes("p", n)
		m, _ := b.Read(p)
		vAssert("C10.rb.read.count", m == exp)
		if k < exp {
			vAssert("C10.rb.read.delivered", p[k] == old)
		}
	}
	vAssert("C10.rb.consume.len", b.Buffered() == L0-exp)
	if k >= exp {
		vAssert("C10.rb.consume.kept", ring.VAt(b.rb, k-exp) == old)
	}
	// lazy return of the pooled ring: once empty after a consuming call the ring has gone back to the pool exactly once
	if had && L0-exp == 0 {
		vAssert("C10.rb.done.returned", b.rb == nil)
		if c := vRbPutCount(); c >= 0 {
			vAssert("C10.rb.done.put_once", c == 1)
		}
	}
	if c := vRbPutCount(); c >= 0 && L0-exp > 0 {
		vAssert("C10.rb.done.not_returned_while_nonempty", c == 0 && b.rb != nil)
	}
	vAssert("C10.rb.consume.inv", vRBInv(&b) && b.IsEmpty() == (b.Buffered() == 0))
	vReach("C10.rb.consume.end")
}

// verif: mode=int
func VH_C10_RB_WriteTo() {
	b := vAnyRB("rb")
	had := b.rb != nil
	L0 := b.Buffered()
	k := vNondetInt("k")
	vAssume(0 <= k && k < L0)
	old := ring.VAt(b.rb, k)
	wr := &vWriter{kk: k}
	n, _ := b.WriteTo(wr)
	t := wr.total
	vAssert("C10.rb.writeto.count", n == int64(t))
	vAssert("C10.rb.writeto.len", b.Buffered() == L0-t)
	if k < t {
		vAssert("C10.rb.writeto.delivered", wr.have && wr.got == old)
	} else {
		vAssert("C10.rb.writeto.kept", ring.VAt(b.rb, k-t) == old)
	}
	if had && L0-t == 0 {
		vAssert("C10.rb.writeto.returned", b.rb == nil)
	}
	vAssert("C10.rb.writeto.inv", vRBInv(&b))
	vReach("C10.rb.writeto.end")
}

// verif: mode=int
func VH_C10_RB_PeekBytes() {
	b := vAnyRB("rb")
	n := vNondetInt("n")
	vAssume(-vMaxLen() <= n && n <= vMaxLen())
	L0 := b.Buffered()
	exp := L0
	if n > 0 && n < L0 {
		exp = n
	}
	k := vNondetInt("k")
	vAssume(0 <= k && k < L0)
	old := ring.VAt(b.rb, k)
	head, tail := b.Peek(n)
	vAssert("C10.rb.peek.count", len(head)+len(tail) == exp)
	if k < exp {
		vAssert("C10.rb.peek.bytes", vCatAt([][]byte{head, tail}, k) == old)
	}
	bb := b.Bytes()
	vAssert("C10.rb.bytes", len(bb) == L0 && bb[k] == old)
	vAssert("C10.rb.peek.nonconsuming", b.Buffered() == L0 && ring.VAt(b.rb, k) == old)
	vReach("C10.rb.peek.end")
}
