package math

// C20 harnesses for pkg/math. Specifications are written independently of the implementation:
// "x is a power of two" is the 63-way disjunction x == 1<<k, not n&(n-1).

func vSpecPow2(x int) bool {
	r := false
	for k := uint(0); k < 63; k++ {
		r = r || x == 1<<k
	}
	return r
}

func vAbs(x int) int {
	if x < 0 {
		return -x
	}
	return x
}

// verif: mode=bv
func VH_C20_IsPowerOfTwo() {
	n := vNondetInt("n")
	vAssert("C20.ispow2.iff", IsPowerOfTwo(n) == vSpecPow2(n))
	vReach("C20.ispow2.end")
}

// verif: mode=bv
func VH_C20_Ceil() {
	n := vNondetInt("n")
	const top = 1 << 62
	if n > top {
		// no power of two >= n fits an int: the function must panic
		vAssert("C20.ceil.panics_iff_no_result", vPanics(func() { CeilToPowerOfTwo(n) }))
		vReach("C20.ceil.panic.end")
		return
	}
	var r int
	p := vPanics(func() { r = CeilToPowerOfTwo(n) })
	vAssert("C20.ceil.nopanic", !p)
	m := n
	if m < 2 {
		m = 2
	}
	vAssert("C20.ceil.pow2", vSpecPow2(r))
	vAssert("C20.ceil.ge", r >= m)
	vAssert("C20.ceil.smallest", r/2 < m)
	vReach("C20.ceil.end")
}

// verif: mode=bv
func VH_C20_Floor() {
	n := vNondetInt("n")
	r := FloorToPowerOfTwo(n)
	if n <= 2 {
		vAssert("C20.floor.small_identity", r == n)
		vReach("C20.floor.small.end")
		return
	}
	vAssert("C20.floor.pow2", vSpecPow2(r))
	vAssert("C20.floor.le", r <= n)
	vAssert("C20.floor.largest", n-r < r)
	vReach("C20.floor.end")
}

// verif: mode=bv
func VH_C20_Closest() {
	n := vNondetInt("n")
	const top = 1 << 62
	vAssume(n >= 1 && n <= top)
	r := ClosestPowerOfTwo(n)
	vAssert("C20.closest.pow2", vSpecPow2(r))
	// for every other power of two q = 1<<k: r is nearer, or equally near and not smaller (k is free => for all k)
	k := vNondetInt("k")
	vAssume(k >= 0 && k <= 62)
	q := 1 << uint(k)
	dr, dq := vAbs(n-r), vAbs(n-q)
	vAssert("C20.closest.nearest_upper_on_tie", dr < dq || (dr == dq && r >= q))
	vReach("C20.closest.end")
}
