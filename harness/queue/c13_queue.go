package queue

// ---------------------------------------------------------------------------------------
// C13: thread programs over the REAL lock-free queue (Enqueue/Dequeue/Length/IsEmpty, load, cas).
// The concurrent encoder (engine B) inlines the real callees from go/ssa, unrolls the retry loops
// and makes the interleaving symbolic. vOpBegin/vOpEnd bracket one queue operation so that the
// encoder knows invocation/response points and the observed result.
// ---------------------------------------------------------------------------------------

var (
	vq     AsyncTaskQueue
	vTasks [8]*Task
)

func VT_Setup() {
	vq = NewLockFreeQueue()
	for i := range vTasks {
		vTasks[i] = &Task{}
	}
}

const (
	vKindEnq = 0
	vKindDeq = 1
)

func vEnq(op, i int) {
	vOpBegin(op, vKindEnq, i)
	vq.Enqueue(vTasks[i])
	vOpEnd(op, nil)
}

func vDeq(op int) {
	vOpBegin(op, vKindDeq, 0)
	t := vq.Dequeue()
	vOpEnd(op, t)
}

// ---- configuration A: {E,E | D,D}
func VT_A_P() { vEnq(0, 1); vEnq(1, 2) }
func VT_A_C() { vDeq(2); vDeq(3) }

// ---- configuration B: {E,E | E | D,D,D}
func VT_B_P1() { vEnq(0, 1); vEnq(1, 2) }
func VT_B_P2() { vEnq(2, 3) }
func VT_B_C()  { vDeq(3); vDeq(4); vDeq(5) }

// ---- configuration C: {E,E | D | D,D}
func VT_C_P()  { vEnq(0, 1); vEnq(1, 2) }
func VT_C_C1() { vDeq(2) }
func VT_C_C2() { vDeq(3); vDeq(4) }

// ---- configuration D: {E | E | D,D}: two enqueuers racing on the same tail
func VT_D_P1() { vEnq(0, 1) }
func VT_D_P2() { vEnq(1, 2) }
func VT_D_C()  { vDeq(2); vDeq(3) }

// ---- configuration E: {E,E | E | D,D | D}
func VT_E_P1() { vEnq(0, 1); vEnq(1, 2) }
func VT_E_P2() { vEnq(2, 3) }
func VT_E_C1() { vDeq(3); vDeq(4) }
func VT_E_C2() { vDeq(5) }

// observer run after all threads finished (quiescence)
func VT_Quiescent() {
	vObserveLen(int(vq.Length()), vq.IsEmpty())
}

// ---- intrinsics of the concurrent encoder (intercepted by name on the symbolic side); native bodies record what
// the replay observed
var (
	vOpResult [16]*Task
	vOpDone   [16]bool
	vObsLen   = -1
	vObsEmpty bool
)

// set by the native replay support file (the cooperative scheduler stamps invocation/response order)
var vOpBeginHook, vOpEndHook func(op int)

func vOpBegin(op, kind, arg int) {
	if vOpBeginHook != nil {
		vOpBeginHook(op)
	}
}

func vOpEnd(op int, t *Task) {
	vOpResult[op] = t
	vOpDone[op] = true
	if vOpEndHook != nil {
		vOpEndHook(op)
	}
}
func vObserveLen(n int, empty bool) {
	vObsLen = n
	vObsEmpty = empty
}
