package ringbuffer

import "github.com/panjf2000/gnet/v2/pkg/buffer/ring"

// C12 (ring-buffer pool): the real Pool.Get/Put/index are executed; sync.Pool is the exclusive hand-out model,
// calibrate() is havoc'ed (defaultSize/maxSize arbitrary). A ring obtained from the pool is empty and is not the
// one another holder still owns.
//
//verif: mode=int
func VH_C12_RingPool() {
	p := &Pool{}
	p.defaultSize = uint64(vNondetInt("defaultSize"))
	p.maxSize = uint64(vNondetInt("maxSize"))
	vAssume(p.defaultSize <= 1<<26 && p.maxSize <= 1<<26)
	b := ring.VAnyRing("rb") // arbitrary valid ring, typically non-empty, any cursor position
	capB := b.Cap()
	p.Put(b)
	g := p.Get()
	vAssert("C12.ringpool.get_empty", g != nil && g.IsEmpty() && g.Buffered() == 0 && g.Available() == g.Cap())
	vAssert("C12.ringpool.get_valid", ring.VRingInv(g))
	if g == b {
		vAssert("C12.ringpool.oversized_dropped", p.maxSize == 0 || uint64(capB) <= p.maxSize)
	}
	g2 := p.Get()
	vAssert("C12.ringpool.exclusive", g2 != g && g2.IsEmpty())
	vReach("C12.ringpool.end")
}
