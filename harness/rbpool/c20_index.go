package ringbuffer

// verif: mode=bv
func VH_C20_RbIndex() {
	n := vNondetInt("n")
	idx := index(n)
	vAssert("C20.rbindex.range", idx >= 0 && idx < steps)
	// for sizes within the calibrated range the class is the smallest one whose size (minSize<<idx) holds n
	if n >= 1 && n <= minSize<<(steps-1) {
		vAssert("C20.rbindex.cap_ge", minSize<<uint(idx) >= n)
		vAssert("C20.rbindex.smallest", idx == 0 || minSize<<uint(idx-1) < n)
	}
	vReach("C20.rbindex.end")
}
