package linkedlist

import (
	"errors"
	"io"
	"math"
)

// ---------------------------------------------------------------------------------------
// C11: one inductive step of every linkedlist.Buffer operation from an arbitrary valid list
// of 0..vCfg("nodes") segments with symbolic lengths and contents.
// ---------------------------------------------------------------------------------------

// verif: mode=int
func VH_C11_PushBack() {
	llb := vAnyList("l")
	n := vNondetInt("n")
	vAssume(0 <= n && n <= vMaxLen())
	p := vNondetBytes("p", n)
	L0, S0 := llb.Buffered(), llb.Len()
	k := vNondetInt("k")
	vAssume(0 <= k && k < L0+n)
	var want byte
	if k < L0 {
		want = vLAt(llb, k)
	} else {
		want = p[k-L0]
	}
	llb.PushBack(p)
	// the caller may reuse its slice: the buffer must hold a copy
	if n > 0 {
		i := vNondetInt("i")
		vAssume(0 <= i && i < n)
		p[i] ^= 0xFF
	}
	vAssert("C11.pushback.len", llb.Buffered() == L0+n)
	vAssert("C11.pushback.segments", (n == 0 && llb.Len() == S0) || (n > 0 && llb.Len() == S0+1))
	vAssert("C11.pushback.content_copied", vLAt(llb, k) == want)
	vAssert("C11.pushback.inv", vListInv(llb) && vAcct(llb))
	vReach("C11.pushback.end")
}

// verif: mode=int
func VH_C11_PushFront() {
	llb := vAnyList("l")
	n := vNondetInt("n")
	vAssume(0 <= n && n <= vMaxLen())
	p := vNondetBytes("p", n)
	L0, S0 := llb.Buffered(), llb.Len()
	k := vNondetInt("k")
	vAssume(0 <= k && k < L0+n)
	var want byte
	if k < n {
		want = p[k]
	} else {
		want = vLAt(llb, k-n)
	}
	llb.PushFront(p)
	if n > 0 {
		i := vNondetInt("i")
		vAssume(0 <= i && i < n)
		p[i] ^= 0xFF
	}
	vAssert("C11.pushfront.len", llb.Buffered() == L0+n)
	vAssert("C11.pushfront.segments", (n == 0 && llb.Len() == S0) || (n > 0 && llb.Len() == S0+1))
	vAssert("C11.pushfront.content_copied", vLAt(llb, k) == want)
	vAssert("C11.pushfront.inv", vListInv(llb) && vAcct(llb))
	vReach("C11.pushfront.end")
}

// verif: mode=int
func VH_C11_Append() {
	llb := vAnyList("l")
	n := vNondetInt("n")
	vAssume(0 <= n && n <= vMaxLen())
	p := vNondetBytes("p", n)
	L0 := llb.Buffered()
	k := vNondetInt("k")
	vAssume(0 <= k && k < L0+n)
	var want byte
	if k < L0 {
		want = vLAt(llb, k)
	} else {
		want = p[k-L0]
	}
	llb.Append(p)
	vAssert("C11.append.len", llb.Buffered() == L0+n)
	vAssert("C11.append.content", vLAt(llb, k) == want)
	vAssert("C11.append.inv", vListInv(llb) && vAcct(llb))
	vReach("C11.append.end")
}

// verif: mode=int
func VH_C11_Pop() {
	llb := vAnyList("l")
	L0, S0 := llb.Buffered(), llb.Len()
	k := vNondetInt("k")
	vAssume(0 <= k && k < L0)
	old := vLAt(llb, k)
	first := 0
	if llb.head != nil {
		first = len(llb.head.buf)
	}
	b := llb.Pop()
	if S0 == 0 {
		vAssert("C11.pop.empty", b == nil)
	} else {
		vAssert("C11.pop.segment", len(b) == first && llb.Len() == S0-1 && llb.Buffered() == L0-first)
		if k < first {
			vAssert("C11.pop.bytes", b[k] == old)
		} else {
			vAssert("C11.pop.kept", vLAt(llb, k-first) == old)
		}
	}
	vAssert("C11.pop.inv", vListInv(llb) && vAcct(llb))
	vReach("C11.pop.end")
}

// verif: mode=int
func VH_C11_Read() {
	llb := vAnyList("l")
	n := vNondetInt("n")
	vAssume(0 <= n && n <= vMaxLen())
	p := vNondetBytes("p", n)
	L0 := llb.Buffered()
	exp := n
	if L0 < exp {
		exp = L0
	}
	k := vNondetInt("k")
	vAssume(0 <= k && k < L0)
	old := vLAt(llb, k)
	m, err := llb.Read(p)
	vAssert("C11.read.count", m == exp)
	vAssert("C11.read.err", (err == nil) == (n == 0 || L0 > 0))
	if k < exp {
		vAssert("C11.read.delivered", p[k] == old)
	} else {
		vAssert("C11.read.kept", vLAt(llb, k-exp) == old)
	}
	vAssert("C11.read.len", llb.Buffered() == L0-exp)
	vAssert("C11.read.inv", vListInv(llb) && vAcct(llb))
	vReach("C11.read.end")
}

// verif: mode=int
func VH_C11_Peek() {
	llb := vAnyList("l")
	n := vNondetInt("n")
	vAssume(-vMaxLen() <= n && n <= 4*vMaxLen())
	L0 := llb.Buffered()
	k := vNondetInt("k")
	vAssume(0 <= k && k < L0)
	old := vLAt(llb, k)
	bs, err := llb.Peek(n)
	if n > L0 && n != math.MaxInt32 {
		vAssert("C11.peek.short", err == io.ErrShortBuffer && bs == nil)
	} else {
		exp := L0
		if n > 0 && n != math.MaxInt32 {
			exp = n
		}
		vAssert("C11.peek.count", err == nil && vCatLen(bs) == exp)
		if k < exp {
			vAssert("C11.peek.bytes", vCatAt(bs, k) == old)
		}
	}
	vAssert("C11.peek.nonconsuming", llb.Buffered() == L0 && vLAt(llb, k) == old)
	vAssert("C11.peek.inv", vListInv(llb) && vAcct(llb))
	vReach("C11.peek.end")
}

// verif: mode=int
func VH_C11_PeekWithBytes() {
	llb := vAnyList("l")
	n := vNondetInt("n")
	vAssume(-vMaxLen() <= n && n <= 8*vMaxLen())
	a := vNondetInt("a")
	b := vNondetInt("b")
	vAssume(0 <= a && a <= vMaxLen() && 0 <= b && b <= vMaxLen())
	x := vNondetBytes("x", a)
	y := vNondetBytes("y", b)
	L0 := llb.Buffered()
	T := a + b + L0
	vAssume(T <= math.MaxInt32)
	k := vNondetInt("k")
	vAssume(0 <= k && k < T)
	var old byte
	if k < a {
		old = x[k]
	} else if k < a+b {
		old = y[k-a]
	} else {
		old = vLAt(llb, k-a-b)
	}
	bs, err := llb.PeekWithBytes(n, x, y)
	if n > T && n != math.MaxInt32 {
		vAssert("C11.peekwb.short", err == io.ErrShortBuffer)
	} else {
		exp := T
		if n > 0 && n != math.MaxInt32 {
			exp = n
		}
		vAssert("C11.peekwb.count", err == nil && vCatLen(bs) == exp)
		if k < exp {
			vAssert("C11.peekwb.bytes", vCatAt(bs, k) == old)
		}
	}
	vAssert("C11.peekwb.nonconsuming", llb.Buffered() == L0)
	vAssert("C11.peekwb.inv", vListInv(llb) && vAcct(llb))
	vReach("C11.peekwb.end")
}

// verif: mode=int
func VH_C11_Discard() {
	llb := vAnyList("l")
	n := vNondetInt("n")
	vAssume(-vMaxLen() <= n && n <= 4*vMaxLen())
	L0 := llb.Buffered()
	exp := 0
	if n > 0 {
		exp = n
		if L0 < exp {
			exp = L0
		}
	}
	k := vNondetInt("k")
	vAssume(0 <= k && k < L0)
	old := vLAt(llb, k)
	d, err := llb.Discard(n)
	vAssert("C11.discard.count", d == exp && err == nil)
	vAssert("C11.discard.len", llb.Buffered() == L0-exp)
	if k >= exp {
		vAssert("C11.discard.kept", vLAt(llb, k-exp) == old)
	}
	vAssert("C11.discard.inv", vListInv(llb) && vAcct(llb))
	vReach("C11.discard.end")
}

// verif: mode=int
func VH_C11_Reset() {
	llb := vAnyList("l")
	llb.Reset()
	vAssert("C11.reset.empty", llb.Buffered() == 0 && llb.Len() == 0 && llb.IsEmpty() && llb.Pop() == nil)
	vAssert("C11.reset.inv", vListInv(llb) && vAcct(llb))
	vReach("C11.reset.end")
}

// ---------------------------------------------------------------------------------------
var vErrOther = errors.New("verif: injected I/O error")

type vReader struct {
	maxCalls int
	calls    int
	total    int
	kk       int
	got      byte
	have     bool
	failed   bool
}

func (r *vReader) Read(p []byte) (int, error) {
	r.calls++
	m := vNondetInt("rd.m")
	vAssume(0 <= m && m <= len(p))
	d := vNondetBytes("rd.data", m)
	copy(p, d)
	if r.total <= r.kk && r.kk < r.total+m {
		r.got = d[r.kk-r.total]
		r.have = true
	}
	r.total += m
	e := vNondetInt("rd.err")
	vAssume(0 <= e && e <= 2)
	if r.calls >= r.maxCalls && e == 0 {
		e = 1 // environment bound: the reader ends after maxCalls calls
	}
	if e == 1 {
		return m, io.EOF
	}
	if e == 2 {
		r.failed = true
		return m, vErrOther
	}
	return m, nil
}

type vWriter struct {
	total  int
	kk     int
	got    byte
	have   bool
	failed bool
}

func (w *vWriter) Write(p []byte) (int, error) {
	m := vNondetInt("wr.m")
	vAssume(0 <= m && m <= len(p))
	if w.total <= w.kk && w.kk < w.total+m {
		w.got = p[w.kk-w.total]
		w.have = true
	}
	w.total += m
	if vNondetBool("wr.fail") {
		w.failed = true
		return m, vErrOther
	}
	return m, nil
}

// verif: mode=int
func VH_C11_ReadFrom() {
	llb := vAnyList("l")
	L0 := llb.Buffered()
	k := vNondetInt("k")
	vAssume(0 <= k && k <= 4*vMaxLen())
	var old byte
	if k < L0 {
		old = vLAt(llb, k)
	}
	rd := &vReader{maxCalls: vCfg("reader_calls", 3), kk: k - L0}
	n, err := llb.ReadFrom(rd)
	vAssert("C11.readfrom.count", n == int64(rd.total))
	vAssert("C11.readfrom.len", llb.Buffered() == L0+rd.total)
	if k < L0 {
		vAssert("C11.readfrom.old", vLAt(llb, k) == old)
	} else if k < L0+rd.total {
		vAssert("C11.readfrom.watched", rd.have)
		vAssert("C11.readfrom.new", vLAt(llb, k) == rd.got)
	}
	vAssert("C11.readfrom.err", (err == nil) == !rd.failed)
	vAssert("C11.readfrom.inv", vListInv(llb) && vAcct(llb))
	vReach("C11.readfrom.end")
}

// verif: mode=int
func VH_C11_WriteTo() {
	llb := vAnyList("l")
	L0 := llb.Buffered()
	k := vNondetInt("k")
	vAssume(0 <= k && k < L0)
	old := vLAt(llb, k)
	wr := &vWriter{kk: k}
	n, err := llb.WriteTo(wr)
	t := wr.total
	vAssert("C11.writeto.count", n == int64(t))
	vAssert("C11.writeto.len", llb.Buffered() == L0-t)
	if k < t {
		vAssert("C11.writeto.watched", wr.have)
		vAssert("C11.writeto.delivered", wr.got == old)
	} else {
		vAssert("C11.writeto.kept", vLAt(llb, k-t) == old)
	}
	if wr.failed {
		vAssert("C11.writeto.err_passthrough", err == vErrOther)
	} else if t < L0 {
		vAssert("C11.writeto.err_short", err == io.ErrShortWrite)
	} else {
		vAssert("C11.writeto.err_nil", err == nil)
	}
	vAssert("C11.writeto.inv", vListInv(llb) && vAcct(llb))
	vReach("C11.writeto.end")
}
