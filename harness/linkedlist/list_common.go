package linkedlist

import "math"

// helpers shared by the C11 harnesses and (through list_export.go) by harnesses of other packages

// vListInv: representation invariant; also returns the number of nodes and bytes found by walking the list.
func vListInv(llb *Buffer) bool {
	cnt, sum := 0, 0
	var last *node
	ok := true
	for it := llb.head; it != nil; it = it.next {
		cnt++
		sum += len(it.buf)
		ok = ok && len(it.buf) > 0 && !vReleased(it.buf) // a queued segment is owned by the list, not by the pool
		last = it
		if cnt > 16 {
			return false
		}
	}
	return ok && cnt == llb.size && sum == llb.bytes && last == llb.tail
}

func vAnyList(tag string) *Buffer {
	llb := &Buffer{}
	maxNodes := vCfg("nodes", 3)
	n := vNondetInt(tag + ".nodes")
	vAssume(0 <= n && n <= maxNodes)
	for i := 0; i < n; i++ {
		ln := vNondetInt(tag + ".len")
		vAssume(1 <= ln && ln <= vMaxLen())
		nd := &node{buf: vNondetBytes(tag+".buf", ln)}
		if llb.tail == nil {
			llb.head = nd
		} else {
			llb.tail.next = nd
		}
		llb.tail = nd
		llb.size++
		llb.bytes += ln
	}
	// API limit: Peek's "everything" sentinel is MaxInt32, so content beyond 2^31-1 bytes is outside the claim
	vAssume(llb.bytes <= math.MaxInt32)
	return llb
}

// vLAt: k-th content byte (0 <= k < bytes) by walking the list
func vLAt(llb *Buffer, k int) byte {
	for it := llb.head; it != nil; it = it.next {
		if k < len(it.buf) {
			return it.buf[k]
		}
		k -= len(it.buf)
	}
	vAssert("C11.harness.index_in_range", false)
	return 0
}

func vCatLen(bs [][]byte) int {
	n := 0
	for _, b := range bs {
		n += len(b)
	}
	return n
}

func vCatAt(bs [][]byte, k int) byte {
	for _, b := range bs {
		if k < len(b) {
			return b[k]
		}
		k -= len(b)
	}
	vAssert("C11.harness.cat_index_in_range", false)
	return 0
}

func vAcct(llb *Buffer) bool {
	return llb.IsEmpty() == (llb.Buffered() == 0) && llb.Buffered() >= 0 && llb.Len() >= 0
}
