package linkedlist

func VAnyList(tag string) *Buffer  { return vAnyList(tag) }
func VListInv(llb *Buffer) bool    { return vListInv(llb) }
func VLAt(llb *Buffer, k int) byte { return vLAt(llb, k) }
