package netpoll

import (
	"sync/atomic"

	"golang.org/x/sys/unix"

	"github.com/panjf2000/gnet/v2/pkg/queue"
)

// ---------------------------------------------------------------------------------------
// C03: producers call the REAL (*Poller).Trigger, the consumer runs the REAL (*Poller).Polling
// loop with the real lock-free queues inlined. The kernel part (eventfd registered edge-triggered
// in epoll) is three small stubs over one shared cell: "an eventfd edge is pending".
//   write(efd)            -> edge := 1
//   epoll_wait(msec = -1) -> blocks until edge == 1 (vAwait), then consumes it and reports the eventfd
//   epoll_wait(msec = 0)  -> consumes a pending edge or returns 0
// The calls are redirected to these stubs in a scratch copy of poller_epoll_default.go.
// ---------------------------------------------------------------------------------------

var (
	vp        *Poller
	vEdge     int32
	vExecuted [4]int32 // how often task i ran
	vStamp    [4]int32 // logical time at which task i ran
	vClock    int32
	vAccepted [4]int32
)

func VT_Setup() {
	vp = VNewPoller(3, 4)
}

// native replay hooks (nil on the symbolic side): yield before an atomic step / yield while blocked
var vSchedHook, vBlockHook func()

func vYield() {
	if vSchedHook != nil {
		vSchedHook()
	}
}

func vkEfdWrite(fd int, p []byte) (int, error) {
	vYield()
	atomic.StoreInt32(&vEdge, 1)
	return 8, nil
}

func vkEfdRead(fd int, p []byte) (int, error) { return 8, nil }

func vkEpollWait(epfd int, events []epollevent, msec int) (int, error) {
	if msec != 0 {
		vAwait(&vEdge) // blocked in epoll_wait(-1) until the eventfd becomes readable
	}
	vYield()
	if atomic.SwapInt32(&vEdge, 0) != 0 {
		events[0].Fd = int32(vp.efd)
		events[0].Events = unix.EPOLLIN
		return 1, nil
	}
	return 0, nil
}

func vRan(i int) {
	vYield()
	atomic.AddInt32(&vExecuted[i], 1)
	vYield()
	c := atomic.AddInt32(&vClock, 1)
	vYield()
	atomic.StoreInt32(&vStamp[i], c)
}

// one top-level function per task (no captured variables: the task identity is part of the code pointer)
func vExec0(any) error { vRan(0); return nil }
func vExec1(any) error { vRan(1); return nil }
func vExec2(any) error { vRan(2); return nil }
func vExec3(any) error { vRan(3); return nil }

func vTrig(i int, pr queue.EventPriority) {
	var fn queue.Func
	switch i {
	case 0:
		fn = vExec0
	case 1:
		fn = vExec1
	case 2:
		fn = vExec2
	default:
		fn = vExec3
	}
	if err := vp.Trigger(pr, fn, nil); err == nil {
		vYield()
		atomic.StoreInt32(&vAccepted[i], 1)
	}
}

// producers (task id, priority)
func VT_P_H0()   { vTrig(0, queue.HighPriority) }
func VT_P_H1()   { vTrig(1, queue.HighPriority) }
func VT_P_L0()   { vTrig(0, queue.LowPriority) }
func VT_P_L1()   { vTrig(1, queue.LowPriority) }
func VT_P_H0H1() { vTrig(0, queue.HighPriority); vTrig(1, queue.HighPriority) }
func VT_P_H0L1() { vTrig(0, queue.HighPriority); vTrig(1, queue.LowPriority) }
func VT_P_L0L1() { vTrig(0, queue.LowPriority); vTrig(1, queue.LowPriority) }
func VT_P_H2()   { vTrig(2, queue.HighPriority) }

// scaled set-up: every low-priority request goes to the low-priority queue (threshold 0 instead of 1024) so that the
// "at most MaxAsyncTasksAtOneTime low-priority tasks per wake-up, then self-post" logic is exercised with 2 tasks
// (MaxAsyncTasksAtOneTime is rewritten to 1 in the scaled configuration)
func VT_SetupScaled() {
	vp = VNewPoller(3, 4)
	vp.highPriorityEventsThreshold = 0
}

// the event loop
func VT_Loop() {
	_ = vp.Polling(func(fd int, ev IOEvent, flags IOFlags) error { return nil })
}

// intrinsic of the concurrent encoder: the calling thread can only proceed while *p != 0
func vAwait(p *int32) {
	for atomic.LoadInt32(p) == 0 {
		if vBlockHook != nil {
			vBlockHook()
		}
	}
}
