package netpoll

import (
	"sync/atomic"

	"github.com/panjf2000/gnet/v2/pkg/queue"
)

// exported constructors/observers for the loop-step harnesses in package gnet (default epoll build)

func VNewPoller(epfd, efd int) *Poller {
	p := &Poller{fd: epfd, efd: efd, efdBuf: make([]byte, 8)}
	p.asyncTaskQueue = queue.NewLockFreeQueue()
	p.urgentAsyncTaskQueue = queue.NewLockFreeQueue()
	p.highPriorityEventsThreshold = MaxPollEventsCap
	return p
}

// VPending: number of queued tasks (high, low)
func (p *Poller) VPending() (int, int) {
	return int(p.urgentAsyncTaskQueue.Length()), int(p.asyncTaskQueue.Length())
}

// VRunOne executes the next queued task the way the chores block of Polling does (high priority first)
func (p *Poller) VRunOne() (ran bool, err error) {
	task := p.urgentAsyncTaskQueue.Dequeue()
	if task == nil {
		task = p.asyncTaskQueue.Dequeue()
	}
	if task == nil {
		return false, nil
	}
	err = task.Exec(task.Param)
	queue.PutTask(task)
	return true, err
}

func (p *Poller) VWakeupPending() bool { return atomic.LoadInt32(&p.wakeupCall) == 1 }
func (p *Poller) VFds() (int, int)     { return p.fd, p.efd }

// VSetSaturated emulates "at least highPriorityEventsThreshold (1024) urgent tasks are pending": with threshold 0 every
// low-priority request is shunted to the low-priority queue, as it would be behind a backlog of 1024 urgent tasks
func (p *Poller) VSetSaturated() { p.highPriorityEventsThreshold = 0 }

// VSetUnsaturated restores the default threshold (the backlog has drained)
func (p *Poller) VSetUnsaturated() { p.highPriorityEventsThreshold = MaxPollEventsCap }
