package ring

import (
	"errors"
	"io"
)

// ---------------------------------------------------------------------------------------
// C09: one inductive step of every ring.Buffer operation from an ARBITRARY valid state.
// State: size in [0, vMaxLen], cursors anywhere, content arbitrary. A pass therefore covers
// operation histories of any length. Content is checked pointwise at a free index k.
// ---------------------------------------------------------------------------------------

// verif: mode=int unwind=6
func VH_C09_Write() {
	rb := vAnyRing("rb")
	n := vNondetInt("n")
	vAssume(0 <= n && n <= vMaxLen())
	p := vNondetBytes("p", n)
	L0 := rb.Buffered()
	k := vNondetInt("k")
	vAssume(0 <= k && k < L0+n)
	var want byte
	if k < L0 {
		want = vAt(rb, k)
	} else {
		want = p[k-L0]
	}
	m, err := rb.Write(p)
	vAssert("C09.write.count", m == n && err == nil)
	vAssert("C09.write.len", rb.Buffered() == L0+n)
	vAssert("C09.write.content", vAt(rb, k) == want)
	vAssert("C09.write.acct", vAcct(rb))
	vAssert("C09.write.inv", vRingInv(rb))
	vReach("C09.write.end")
}

// verif: mode=int unwind=6
func VH_C09_WriteString() {
	rb := vAnyRing("rb")
	n := vNondetInt("n")
	vAssume(0 <= n && n <= vMaxLen())
	p := vNondetBytes("p", n)
	L0 := rb.Buffered()
	k := vNondetInt("k")
	vAssume(0 <= k && k < L0+n)
	var want byte
	if k < L0 {
		want = vAt(rb, k)
	} else {
		want = p[k-L0]
	}
	m, err := rb.WriteString(string(p))
	vAssert("C09.writestring.count", m == n && err == nil)
	vAssert("C09.writestring.len", rb.Buffered() == L0+n)
	vAssert("C09.writestring.content", vAt(rb, k) == want)
	vAssert("C09.writestring.inv", vRingInv(rb) && vAcct(rb))
	vReach("C09.writestring.end")
}

// verif: mode=int unwind=6
func VH_C09_WriteByte() {
	rb := vAnyRing("rb")
	c := vNondetByte("c")
	L0 := rb.Buffered()
	k := vNondetInt("k")
	vAssume(0 <= k && k <= L0)
	want := c
	if k < L0 {
		want = vAt(rb, k)
	}
	err := rb.WriteByte(c)
	vAssert("C09.writebyte.err", err == nil)
	vAssert("C09.writebyte.len", rb.Buffered() == L0+1)
	vAssert("C09.writebyte.content", vAt(rb, k) == want)
	vAssert("C09.writebyte.inv", vRingInv(rb) && vAcct(rb))
	vReach("C09.writebyte.end")
}

// verif: mode=int
func VH_C09_Read() {
	rb := vAnyRing("rb")
	n := vNondetInt("n")
	vAssume(0 <= n && n <= vMaxLen())
	p := vNondetBytes("p", n)
	L0 := rb.Buffered()
	exp := n
	if L0 < exp {
		exp = L0
	}
	k := vNondetInt("k") // index into the bytes delivered
	j := vNondetInt("j") // index into the bytes that must remain
	vAssume(0 <= k && 0 <= j && j <= vMaxLen())
	var delivered, kept byte
	if k < exp {
		delivered = vAt(rb, k)
	}
	if exp+j < L0 {
		kept = vAt(rb, exp+j)
	}
	m, err := rb.Read(p)
	vAssert("C09.read.count", m == exp)
	vAssert("C09.read.err", (err == nil) == (n == 0 || L0 > 0))
	if k < exp {
		vAssert("C09.read.delivered", p[k] == delivered)
	}
	vAssert("C09.read.len", rb.Buffered() == L0-exp)
	if exp+j < L0 {
		vAssert("C09.read.kept", vAt(rb, j) == kept)
	}
	vAssert("C09.read.inv", vRingInv(rb) && vAcct(rb))
	vReach("C09.read.end")
}

// verif: mode=int
func VH_C09_ReadByte() {
	rb := vAnyRing("rb")
	L0 := rb.Buffered()
	j := vNondetInt("j")
	vAssume(0 <= j && j <= vMaxLen())
	var first, kept byte
	if L0 > 0 {
		first = vAt(rb, 0)
	}
	if 1+j < L0 {
		kept = vAt(rb, 1+j)
	}
	b, err := rb.ReadByte()
	if L0 == 0 {
		vAssert("C09.readbyte.empty", err != nil && rb.Buffered() == 0)
	} else {
		vAssert("C09.readbyte.value", err == nil && b == first)
		vAssert("C09.readbyte.len", rb.Buffered() == L0-1)
		if 1+j < L0 {
			vAssert("C09.readbyte.kept", vAt(rb, j) == kept)
		}
	}
	vAssert("C09.readbyte.inv", vRingInv(rb) && vAcct(rb))
	vReach("C09.readbyte.end")
}

// vCat: k-th byte of head++tail
func vCat(head, tail []byte, k int) byte {
	if k < len(head) {
		return head[k]
	}
	return tail[k-len(head)]
}

// verif: mode=int
func VH_C09_Peek() {
	rb := vAnyRing("rb")
	n := vNondetInt("n")
	vAssume(-vMaxLen() <= n && n <= vMaxLen())
	L0 := rb.Buffered()
	exp := L0
	if n > 0 && n < L0 {
		exp = n
	}
	k := vNondetInt("k")
	vAssume(0 <= k && k < L0)
	old := vAt(rb, k)
	head, tail := rb.Peek(n)
	vAssert("C09.peek.count", len(head)+len(tail) == exp)
	if k < exp {
		vAssert("C09.peek.bytes", vCat(head, tail, k) == old)
	}
	vAssert("C09.peek.nonconsuming", rb.Buffered() == L0 && vAt(rb, k) == old)
	vAssert("C09.peek.inv", vRingInv(rb) && vAcct(rb))
	vReach("C09.peek.end")
}

// verif: mode=int
func VH_C09_Bytes() {
	rb := vAnyRing("rb")
	L0 := rb.Buffered()
	k := vNondetInt("k")
	vAssume(0 <= k && k < L0)
	old := vAt(rb, k)
	bb := rb.Bytes()
	vAssert("C09.bytes.count", len(bb) == L0)
	vAssert("C09.bytes.content", bb[k] == old)
	vAssert("C09.bytes.nonconsuming", rb.Buffered() == L0 && vAt(rb, k) == old)
	vAssert("C09.bytes.inv", vRingInv(rb) && vAcct(rb))
	vReach("C09.bytes.end")
}

// verif: mode=int
func VH_C09_BytesEmpty() {
	rb := vAnyRing("rb")
	vAssume(rb.Buffered() == 0)
	bb := rb.Bytes()
	vAssert("C09.bytes.empty", len(bb) == 0)
	vReach("C09.bytesempty.end")
}

// verif: mode=int
func VH_C09_Discard() {
	rb := vAnyRing("rb")
	n := vNondetInt("n")
	vAssume(-vMaxLen() <= n && n <= vMaxLen())
	L0 := rb.Buffered()
	exp := 0
	if n > 0 {
		exp = n
		if L0 < exp {
			exp = L0
		}
	}
	j := vNondetInt("j")
	vAssume(0 <= j && j <= vMaxLen() && exp+j < L0)
	kept := vAt(rb, exp+j)
	d, err := rb.Discard(n)
	vAssert("C09.discard.count", d == exp && err == nil)
	vAssert("C09.discard.len", rb.Buffered() == L0-exp)
	vAssert("C09.discard.kept", vAt(rb, j) == kept)
	vAssert("C09.discard.inv", vRingInv(rb) && vAcct(rb))
	vReach("C09.discard.end")
}

// verif: mode=int
func VH_C09_DiscardAll() {
	rb := vAnyRing("rb")
	n := vNondetInt("n")
	L0 := rb.Buffered()
	vAssume(n >= L0 && n <= vMaxLen())
	d, err := rb.Discard(n)
	if n > 0 {
		vAssert("C09.discardall.count", d == L0 && err == nil)
		vAssert("C09.discardall.empty", rb.Buffered() == 0 && rb.IsEmpty())
	}
	vAssert("C09.discardall.inv", vRingInv(rb) && vAcct(rb))
	vReach("C09.discardall.end")
}

// verif: mode=int
func VH_C09_Reset() {
	rb := vAnyRing("rb")
	c := rb.Cap()
	rb.Reset()
	vAssert("C09.reset.empty", rb.Buffered() == 0 && rb.IsEmpty() && rb.Cap() == c && rb.Available() == c)
	vAssert("C09.reset.inv", vRingInv(rb) && vAcct(rb))
	vReach("C09.reset.end")
}

// verif: mode=int
func VH_C09_New() {
	n := vNondetInt("n")
	vAssume(0 <= n && n <= vMaxLen())
	rb := New(n)
	vAssert("C09.new.empty", rb.Buffered() == 0 && rb.IsEmpty() && rb.Cap() >= n)
	vAssert("C09.new.inv", vRingInv(rb) && vAcct(rb))
	vReach("C09.new.end")
}

// ---------------------------------------------------------------------------------------
// symbolic io.Reader / io.Writer: any behaviour the interface contracts permit
// ---------------------------------------------------------------------------------------

var vErrOther = errors.New("verif: injected I/O error")

type vReader struct {
	maxCalls int
	calls    int
	total    int  // bytes returned so far
	kk       int  // stream position being watched
	got      byte // byte at stream position kk
	have     bool
	eof      bool
	failed   bool
}

func (r *vReader) Read(p []byte) (int, error) {
	r.calls++
	m := vNondetInt("rd.m")
	vAssume(0 <= m && m <= len(p))
	d := vNondetBytes("rd.data", m)
	copy(p, d)
	if r.total <= r.kk && r.kk < r.total+m {
		r.got = d[r.kk-r.total]
		r.have = true
	}
	r.total += m
	e := vNondetInt("rd.err")
	vAssume(0 <= e && e <= 2)
	if r.calls >= r.maxCalls && e == 0 {
		e = 1 // environment bound: the reader ends after maxCalls calls
	}
	if e == 1 {
		r.eof = true
		return m, io.EOF
	}
	if e == 2 {
		r.failed = true
		return m, vErrOther
	}
	return m, nil
}

type vWriter struct {
	maxCalls int
	calls    int
	total    int
	kk       int
	got      byte
	have     bool
	failed   bool
}

func (w *vWriter) Write(p []byte) (int, error) {
	w.calls++
	m := vNondetInt("wr.m")
	vAssume(0 <= m && m <= len(p))
	if w.total <= w.kk && w.kk < w.total+m {
		w.got = p[w.kk-w.total]
		w.have = true
	}
	w.total += m
	fail := vNondetBool("wr.fail")
	if fail {
		w.failed = true
		return m, vErrOther
	}
	return m, nil
}

// verif: mode=int unwind=6
func VH_C09_ReadFrom() {
	rb := vAnyRing("rb")
	L0 := rb.Buffered()
	k := vNondetInt("k")
	vAssume(0 <= k)
	var old byte
	if k < L0 {
		old = vAt(rb, k)
	}
	rd := &vReader{maxCalls: vCfg("reader_calls", 3), kk: k - L0}
	n, err := rb.ReadFrom(rd)
	vAssert("C09.readfrom.count", n == int64(rd.total))
	vAssert("C09.readfrom.len", rb.Buffered() == L0+rd.total)
	if k < L0 {
		vAssert("C09.readfrom.old", vAt(rb, k) == old)
	} else if k < L0+rd.total {
		vAssert("C09.readfrom.watched", rd.have)
		vAssert("C09.readfrom.new", vAt(rb, k) == rd.got)
	}
	vAssert("C09.readfrom.err", (err == nil) == !rd.failed)
	vAssert("C09.readfrom.inv", vRingInv(rb) && vAcct(rb))
	vReach("C09.readfrom.end")
}

// verif: mode=int
func VH_C09_WriteTo() {
	rb := vAnyRing("rb")
	L0 := rb.Buffered()
	k := vNondetInt("k") // watched position in the writer's stream
	j := vNondetInt("j") // watched position in what must remain
	vAssume(0 <= k && 0 <= j && j <= vMaxLen())
	var oldk byte
	if k < L0 {
		oldk = vAt(rb, k)
	}
	wr := &vWriter{kk: k}
	// remember the byte that will be at remaining-index j for every possible accepted total t: we need old(t+j);
	// t is only known afterwards, so watch absolute index a = t+j by choosing a free and constraining later.
	a := vNondetInt("a")
	vAssume(0 <= a && a <= vMaxLen())
	var olda byte
	if a < L0 {
		olda = vAt(rb, a)
	}
	n, err := rb.WriteTo(wr)
	t := wr.total
	vAssert("C09.writeto.count", n == int64(t))
	vAssert("C09.writeto.len", rb.Buffered() == L0-t)
	if k < t {
		vAssert("C09.writeto.watched", wr.have)
		vAssert("C09.writeto.delivered", wr.got == oldk)
	}
	if a == t+j && a < L0 {
		vAssert("C09.writeto.kept", vAt(rb, j) == olda)
	}
	if L0 > 0 {
		if wr.failed {
			vAssert("C09.writeto.err_passthrough", err == vErrOther)
		} else if t < L0 {
			vAssert("C09.writeto.err_short", err == io.ErrShortWrite)
		} else {
			vAssert("C09.writeto.err_nil", err == nil)
		}
	}
	vAssert("C09.writeto.inv", vRingInv(rb) && vAcct(rb))
	vReach("C09.writeto.end")
}
