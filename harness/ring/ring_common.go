package ring

// helpers shared by the C09 harnesses and (through ring_export.go) by harnesses of other packages

func vRingInv(rb *Buffer) bool {
	if rb.size == 0 {
		return len(rb.buf) == 0 && rb.r == 0 && rb.w == 0 && rb.isEmpty
	}
	return len(rb.buf) == rb.size && !vReleased(rb.buf) && 0 <= rb.r && rb.r < rb.size && 0 <= rb.w && rb.w < rb.size &&
		(!rb.isEmpty || (rb.r == 0 && rb.w == 0))
}

func vAnyRing(tag string) *Buffer {
	size := vNondetInt(tag + ".size")
	r := vNondetInt(tag + ".r")
	w := vNondetInt(tag + ".w")
	e := vNondetBool(tag + ".isEmpty")
	vAssume(size >= 0 && size <= vMaxLen())
	rb := &Buffer{size: size, r: r, w: w, isEmpty: e}
	if size > 0 {
		rb.buf = vNondetBytes(tag+".buf", size)
	}
	vAssume(vRingInv(rb))
	return rb
}

// vAt: k-th buffered byte (0 <= k < Buffered()) straight from the representation
func vAt(rb *Buffer, k int) byte {
	i := rb.r + k
	if i >= rb.size {
		i -= rb.size
	}
	return rb.buf[i]
}

func vAcct(rb *Buffer) bool {
	return rb.Buffered()+rb.Available() == rb.Cap() && rb.IsEmpty() == (rb.Buffered() == 0) &&
		rb.IsFull() == (rb.Available() == 0 && rb.Cap() > 0) && rb.Buffered() >= 0 && rb.Available() >= 0
}
