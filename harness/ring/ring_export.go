package ring

// exported constructors/observers for harnesses living in other packages (elastic, gnet)

func VAnyRing(tag string) *Buffer { return vAnyRing(tag) }
func VRingInv(rb *Buffer) bool    { return vRingInv(rb) }
func VAt(rb *Buffer, k int) byte  { return vAt(rb, k) }
