package byteslice

// verif: mode=bv
func VH_C20_BsIndex() {
	n := vNondetUint32("n")
	vAssume(n >= 1)
	idx := index(n)
	vAssert("C20.bsindex.range", idx <= 32)
	vAssert("C20.bsindex.cap_ge", uint64(1)<<idx >= uint64(n))
	vAssert("C20.bsindex.smallest", idx == 0 || uint64(1)<<(idx-1) < uint64(n))
	vReach("C20.bsindex.end")
}
