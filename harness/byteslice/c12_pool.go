package byteslice

import "math"

// ---------------------------------------------------------------------------------------
// C12 (byte-slice pool): the REAL Get/Put/index are executed symbolically (bit-vector back end
// for the size-class arithmetic). sync.Pool is modelled as: Get returns nil or any element
// previously Put into that very pool and not yet handed out (exclusive hand-out).
// ---------------------------------------------------------------------------------------

// Get on an empty pool: exact length, capacity at least that large.
//
//verif: mode=bv
func VH_C12_GetFresh() {
	p := &Pool{}
	size := vNondetInt("size")
	vAssume(size >= 1 && size <= vMaxLen())
	b := p.Get(size)
	vAssert("C12.get.len", len(b) == size)
	vAssert("C12.get.cap", cap(b) >= size)
	vReach("C12.getfresh.end")
}

//verif: mode=bv
func VH_C12_GetNonPositive() {
	p := &Pool{}
	size := vNondetInt("size")
	vAssume(size <= 0)
	b := p.Get(size)
	vAssert("C12.get.nonpositive_nil", b == nil && len(b) == 0)
	vReach("C12.getnonpos.end")
}

// Put any slice shape (a window [off, off+len) with capacity cp inside a larger allocation: exact power-of-two
// capacity, odd capacity, re-sliced tail, foreign memory), then Get any size: the result never reaches beyond the
// returned slice's own capacity.
//
//verif: mode=bv
func VH_C12_PutThenGet() {
	p := &Pool{}
	total := vNondetInt("total")
	off := vNondetInt("off")
	ln := vNondetInt("len")
	cp := vNondetInt("cap")
	vAssume(total >= 0 && total <= vMaxLen())
	vAssume(off >= 0 && ln >= 0 && ln <= cp && cp <= total && off <= total-cp)
	mem := vNondetBytes("mem", total)
	buf := vSubslice(mem, off, ln, cp)
	p.Put(buf)
	size := vNondetInt("size")
	vAssume(size >= 1 && size <= vMaxLen())
	got := p.Get(size)
	vAssert("C12.putget.len", len(got) == size)
	vAssert("C12.putget.cap", cap(got) >= size)
	if vSameMem(got, mem) {
		// handed out the pooled memory: must stay inside what was returned to the pool
		vAssert("C12.putget.within_returned_capacity", cap(got) <= cp)
		vAssert("C12.putget.within_allocation", cap(got) <= vBaseCap(got))
	}
	vReach("C12.putget.end")
}

// A slice that was handed out and not returned is never handed out again (two Gets, one Put before them).
//
//verif: mode=bv
func VH_C12_NoDoubleHandOut() {
	p := &Pool{}
	c := vNondetInt("cap")
	vAssume(c >= 1 && c <= vMaxLen())
	mem := vNondetBytes("mem", c)
	p.Put(mem)
	s1 := vNondetInt("s1")
	s2 := vNondetInt("s2")
	vAssume(s1 >= 1 && s1 <= vMaxLen() && s2 >= 1 && s2 <= vMaxLen())
	a := p.Get(s1)
	b := p.Get(s2)
	vAssert("C12.exclusive.disjoint", !vSameMem(a, b))
	vReach("C12.exclusive.end")
}

// Put of capacity 0 or > MaxInt32 stores nothing.
//
//verif: mode=bv
func VH_C12_PutIgnored() {
	p := &Pool{}
	var empty []byte
	p.Put(empty)
	p.Put(make([]byte, 0))
	vAssert("C12.put.ignored_zero", vPoolCount() <= 0)
	vReach("C12.putignored.end")
}

// The class a capacity is filed under never promises more than the capacity; the class a request is served from
// is large enough.
//
//verif: mode=bv
func VH_C12_ClassArithmetic() {
	c := vNondetInt("cap")
	vAssume(c >= 1 && c <= math.MaxInt32)
	idx := index(uint32(c))
	if c != 1<<idx {
		vAssert("C12.class.put_no_underflow", idx >= 1)
		idx--
	}
	vAssert("C12.class.put_class_le_cap", idx < 32 && 1<<idx <= c)
	s := vNondetInt("size")
	vAssume(s >= 1 && s <= math.MaxInt32)
	g := index(uint32(s))
	vAssert("C12.class.get_class_ge_size", g < 32 && 1<<g >= s)
	vReach("C12.class.end")
}
