package gnet

import (
	"errors"
	"net/url"
	"unsafe"

	"github.com/panjf2000/gnet/v2/internal/gfd"
	errorx "github.com/panjf2000/gnet/v2/pkg/errors"
)

// ---------------------------------------------------------------------------------------
// C16: option normalisation (fully symbolic, bit-vector back end) and the dispatch logic of
// parseProtoAddr with net/url.Parse, strings.ReplaceAll and path.Join replaced by environment stubs
// that return any value of their type contract (redirected in a scratch copy of gnet.go on both the
// symbolic and the replay side).
// ---------------------------------------------------------------------------------------

func vSpecPow2(x int) bool {
	r := false
	for k := uint(0); k < 63; k++ {
		r = r || x == 1<<k
	}
	return r
}

func vCheckCap(label string, req, got int) {
	switch {
	case req <= 0:
		vAssert(label+".default_64k", got == 64*1024)
	case req <= 1024:
		vAssert(label+".minimum_1k", got == 1024)
	default:
		vAssert(label+".pow2", vSpecPow2(got))
		vAssert(label+".ge_request", got >= req)
		vAssert(label+".smallest", got/2 < req)
	}
}

func vAnyOptions() Options {
	var o Options
	o.ReadBufferCap = vNondetInt("ReadBufferCap")
	o.WriteBufferCap = vNondetInt("WriteBufferCap")
	o.EdgeTriggeredIOChunk = vNondetInt("EdgeTriggeredIOChunk")
	o.EdgeTriggeredIO = vNondetBool("EdgeTriggeredIO")
	o.NumEventLoop = vNondetInt("NumEventLoop")
	o.Multicore = vNondetBool("Multicore")
	o.LockOSThread = vNondetBool("LockOSThread")
	return o
}

func vCheckNormalised(in Options, out *Options) {
	vCheckCap("C16.opts.readcap", in.ReadBufferCap, out.ReadBufferCap)
	vCheckCap("C16.opts.writecap", in.WriteBufferCap, out.WriteBufferCap)
	if in.EdgeTriggeredIOChunk > 0 {
		vAssert("C16.opts.chunk.forces_et", out.EdgeTriggeredIO)
		vAssert("C16.opts.chunk.pow2", vSpecPow2(out.EdgeTriggeredIOChunk))
		vAssert("C16.opts.chunk.ge_request", out.EdgeTriggeredIOChunk >= in.EdgeTriggeredIOChunk && (out.EdgeTriggeredIOChunk == 2 || out.EdgeTriggeredIOChunk/2 < in.EdgeTriggeredIOChunk))
	} else {
		vAssert("C16.opts.et_unchanged", out.EdgeTriggeredIO == in.EdgeTriggeredIO)
		if in.EdgeTriggeredIO {
			vAssert("C16.opts.chunk.default_1m", out.EdgeTriggeredIOChunk == 1<<20)
		}
	}
}

// verif: mode=bv
func VH_C16_ServerOptions() {
	in := vAnyOptions()
	const top = 1 << 62
	if in.ReadBufferCap > top || in.WriteBufferCap > top || in.EdgeTriggeredIOChunk > top {
		// no power of two >= request exists: the documented behaviour is a panic
		vAssert("C16.opts.server.panics_only_when_unrepresentable", vPanics(func() { _, _, _ = createListeners(nil, WithOptions(in)) }) || (in.LockOSThread && in.NumEventLoop > 10000))
		vReach("C16.opts.server.huge.end")
		return
	}
	var out *Options
	var err error
	p := vPanics(func() { _, out, err = createListeners(nil, WithOptions(in)) })
	vAssert("C16.opts.server.no_panic", !p)
	if in.LockOSThread && in.NumEventLoop > 10000 {
		vAssert("C16.opts.server.too_many_threads", err == errorx.ErrTooManyEventLoopThreads)
		vReach("C16.opts.server.toomany.end")
		return
	}
	vAssert("C16.opts.server.ok", err == nil && out != nil)
	vCheckNormalised(in, out)
	vReach("C16.opts.server.end")
}

// verif: mode=bv
func VH_C16_ClientOptions() {
	in := vAnyOptions()
	const top = 1 << 62
	vAssume(in.ReadBufferCap <= top && in.WriteBufferCap <= top && in.EdgeTriggeredIOChunk <= top)
	var cli *Client
	var err error
	p := vPanics(func() { cli, err = NewClient(nil, WithOptions(in)) })
	vAssert("C16.opts.client.no_panic", !p)
	vAssert("C16.opts.client.ok", err == nil && cli != nil && cli.opts != nil)
	vCheckNormalised(in, cli.opts)
	vReach("C16.opts.client.end")
}

// verif: mode=bv
func VH_C16_EventLoops() {
	o := vAnyOptions()
	vCPU = vNondetInt("NumCPU")
	vAssume(vCPU >= 1)
	n := determineEventLoops(&o)
	vAssert("C16.loops.range", n >= 1 && n <= gfd.EventLoopIndexMax)
	if o.NumEventLoop > 0 && o.NumEventLoop <= gfd.EventLoopIndexMax {
		vAssert("C16.loops.explicit", n == o.NumEventLoop)
	} else if o.NumEventLoop > gfd.EventLoopIndexMax {
		vAssert("C16.loops.clamped", n == gfd.EventLoopIndexMax)
	} else if !o.Multicore {
		vAssert("C16.loops.single", n == 1)
	} else {
		vAssert("C16.loops.multicore", (vCPU <= gfd.EventLoopIndexMax && n == vCPU) || (vCPU > gfd.EventLoopIndexMax && n == gfd.EventLoopIndexMax))
	}
	vReach("C16.loops.end")
}

var vCPU = 1

func vstubNumCPU() int { return vCPU }

// ------------------------------------------------------------------ parseProtoAddr dispatch
var (
	vURL         *url.URL
	vURLErr      error
	vErrParse    = errors.New("verif: url parse error")
	vJoinResult  string
	vSchemes     = [9]string{"tcp", "tcp4", "tcp6", "udp", "udp4", "udp6", "unix", "", "http"}
	vParseCalled int
)

func vstubURLParse(s string) (*url.URL, error) {
	vParseCalled++
	// the text handed to the URL parser must be the percent-escaped form of the address, whatever the address is
	vParsedEscaped = len(s) == len(vEscaped) && unsafe.StringData(s) == unsafe.StringData(vEscaped)
	return vURL, vURLErr
}

var (
	vEscaped       = "<percent-escaped address>"
	vEscapeCalls   int
	vParseInput    string
	vEscapeArgsOK  bool
	vParsedEscaped bool
)

func vstubReplaceAll(s, old, new string) string {
	vEscapeCalls++
	// the whole address is escaped, not a part of it: '%' is not legal anywhere in what url.Parse accepts
	vEscapeArgsOK = old == "%" && new == "%25" && len(s) == len(vParseInput) && unsafe.StringData(s) == unsafe.StringData(vParseInput)
	return vEscaped
}

// path.Join contract: "" iff all elements are empty, otherwise a non-empty cleaned path
func vstubPathJoin(a, b string) string {
	if a == "" && b == "" {
		return ""
	}
	return vJoinResult
}

// verif: mode=int
func VH_C16_ParseDispatch() {
	vParseCalled, vEscapeCalls, vEscapeArgsOK, vParsedEscaped = 0, 0, false, false // (several tapes replay in one process)
	in := string(vNondetBytes("addr", 8))
	if vNondetBool("parse_fails") {
		vURL, vURLErr = nil, vErrParse
	} else {
		k := vNondetInt("scheme")
		vAssume(0 <= k && k < 9)
		hl := vNondetInt("hostlen")
		pl := vNondetInt("pathlen")
		vAssume(0 <= hl && hl <= 6 && 0 <= pl && pl <= 6)
		vURL, vURLErr = &url.URL{Scheme: vSchemes[k], Host: string(vNondetBytes("host", hl)), Path: string(vNondetBytes("path", pl))}, nil
	}
	vJoinResult = "/cleaned"
	var proto, ep string
	var err error
	vParseInput = in
	p := vPanics(func() { proto, ep, err = parseProtoAddr(in) })
	vAssert("C16.parse.never_panics", !p)
	vAssert("C16.parse.parsed_once", vParseCalled == 1)
	vAssert("C16.parse.percent_escaped_before_parsing", vEscapeCalls == 1 && vEscapeArgsOK && vParsedEscaped)
	if vURLErr != nil {
		vAssert("C16.parse.error_passthrough", err == vErrParse && proto == "" && ep == "")
		vReach("C16.parse.fail.end")
		return
	}
	u := vURL
	switch u.Scheme {
	case "":
		vAssert("C16.parse.missing_scheme", err == errorx.ErrInvalidNetworkAddress)
	case "tcp", "tcp4", "tcp6", "udp", "udp4", "udp6":
		if u.Host == "" || u.Path != "" {
			vAssert("C16.parse.empty_endpoint", err == errorx.ErrInvalidNetworkAddress && proto == "" && ep == "")
		} else {
			vAssert("C16.parse.inet", err == nil && proto == u.Scheme && ep == u.Host)
		}
	case "unix":
		if u.Host == "" && u.Path == "" {
			vAssert("C16.parse.unix_empty", err == errorx.ErrInvalidNetworkAddress)
		} else {
			vAssert("C16.parse.unix", err == nil && proto == "unix" && ep == "/cleaned")
		}
	default:
		vAssert("C16.parse.unsupported", err == errorx.ErrUnsupportedProtocol && proto == "" && ep == "")
	}
	vReach("C16.parse.end")
}
