package gnet

import (
	"net"

	"golang.org/x/sys/unix"

	vk "github.com/panjf2000/gnet/v2/internal/vk"
	errorx "github.com/panjf2000/gnet/v2/pkg/errors"
)

// ---------------------------------------------------------------------------------------
// C08: readUDP on a UDP listener with the ghost kernel holding one datagram of symbolic length,
// content and source address.
// ---------------------------------------------------------------------------------------


type vUDPObs struct {
	traffics    int
	buffered    int
	consumed    int
	gotByte     byte
	gotOK       bool
	remotePort  int
	remoteIPb   byte
	remoteIsUDP bool
	replyN      int
	replyErr    error
	writevErr   error
}

func vSetDatagram(tag string, ipIdx int) (dl int, sa *unix.SockaddrInet4) {
	dl = vNondetInt(tag + ".len")
	vAssume(0 <= dl && dl <= 65507)
	sa = &unix.SockaddrInet4{Port: vNondetInt(tag + ".port")}
	vAssume(0 <= sa.Port && sa.Port <= 65535)
	copy(sa.Addr[:], vNondetBytes(tag+".ip", 4))
	s := &vk.S[vListenFD]
	s.DgramReady = true
	s.Dgram = vNondetBytes(tag+".payload", dl)
	s.DgramFrom = sa
	return
}

//verif: mode=int
func VH_C08_ReadUDP() {
	w := vNewWorld(vNondetBool("et"), 0)
	w.el.listeners[vListenFD] = &listener{fd: vListenFD, network: "udp", addr: vLocalUDP}
	vk.S[vListenFD] = vk.Sock{Owner: vk.Framework, Registered: true}
	rb := len(w.el.buffer)
	dl, sa := vSetDatagram("d1", 0)
	exp := dl
	if exp > rb {
		exp = rb // a datagram longer than the read buffer is truncated by the kernel (outside the statement)
	}
	k := vNondetInt("k") // free index into the payload
	i := vNondetInt("i") // free index into the IP
	vAssume(0 <= k && 0 <= i && i < 4)
	var o vUDPObs
	want := vNondetInt("want") // how much the handler reads
	vAssume(0 <= want && want <= 65535)
	replyLen := vNondetInt("reply.len")
	vAssume(0 <= replyLen && replyLen <= 65507)
	reply := vNondetBytes("reply", replyLen)
	vk.S[vListenFD].WatchK = k
	w.h.onTraffic = func(c *conn) Action {
		o.traffics++
		o.buffered = c.InboundBuffered()
		if ua, ok := c.RemoteAddr().(*net.UDPAddr); ok && len(ua.IP) == 4 {
			o.remoteIsUDP = true
			o.remotePort = ua.Port
			o.remoteIPb = ua.IP[i]
		}
		if want > 0 {
			p := vNondetBytes("handlerbuf", want)
			n, _ := c.Read(p)
			o.consumed = n
			if k < n {
				o.gotByte = p[k]
				o.gotOK = true
			}
		}
		o.replyN, o.replyErr = c.Write(reply)
		_, o.writevErr = c.Writev([][]byte{reply})
		return None
	}
	err := w.el.readUDP(vListenFD, 0, 0)
	vAssert("C08.one_event_per_datagram", err == nil && o.traffics == 1)
	vAssert("C08.readable_is_exactly_the_datagram", o.buffered == exp)
	vAssert("C08.remote_addr_is_the_sender", o.remoteIsUDP && o.remotePort == sa.Port && o.remoteIPb == sa.Addr[i])
	if want > 0 {
		m := want
		if m > exp {
			m = exp
		}
		vAssert("C08.read_count", o.consumed == m)
		if k < m {
			vAssert("C08.payload_intact", o.gotOK && o.gotByte == vk.S[vListenFD].Dgram[k])
		}
	}
	s := &vk.S[vListenFD]
	vAssert("C08.write_sends_exactly_one_datagram", s.SentCount == 1 && s.SentLen == replyLen && o.replyN == replyLen && o.replyErr == nil)
	to, ok := s.SentTo.(*unix.SockaddrInet4)
	vAssert("C08.write_goes_back_to_the_sender", ok && to.Port == sa.Port && to.Addr[i] == sa.Addr[i])
	if k < replyLen {
		vAssert("C08.write_payload_intact", s.SentWatchB == reply[k])
	}
	vAssert("C08.writev_refused", o.writevErr == errorx.ErrUnsupportedOp)

	// a second datagram from another sender: nothing of the first one is carried over
	dl2, sa2 := vSetDatagram("d2", 1)
	exp2 := dl2
	if exp2 > rb {
		exp2 = rb
	}
	var o2 vUDPObs
	w.h.onTraffic = func(c *conn) Action {
		o2.traffics++
		o2.buffered = c.InboundBuffered()
		if ua, ok := c.RemoteAddr().(*net.UDPAddr); ok && len(ua.IP) == 4 {
			o2.remoteIsUDP = true
			o2.remotePort = ua.Port
			o2.remoteIPb = ua.IP[i]
		}
		b, _ := c.Peek(-1)
		if k < len(b) {
			o2.gotByte = b[k]
			o2.gotOK = true
		}
		return None
	}
	err = w.el.readUDP(vListenFD, 0, 0)
	vAssert("C08.second.one_event", err == nil && o2.traffics == 1)
	vAssert("C08.second.no_carry_over", o2.buffered == exp2)
	vAssert("C08.second.right_peer", o2.remoteIsUDP && o2.remotePort == sa2.Port && o2.remoteIPb == sa2.Addr[i])
	if k < exp2 {
		vAssert("C08.second.payload_intact", o2.gotOK && o2.gotByte == vk.S[vListenFD].Dgram[k])
	}
	// no datagram waiting: no event
	err = w.el.readUDP(vListenFD, 0, 0)
	vAssert("C08.eagain_no_event", err == nil && o2.traffics == 1)
	vReach("C08.readudp.end")
}

//verif: mode=int
func VH_C08_SendTo() {
	w := vNewWorld(false, 0)
	w.el.listeners[vListenFD] = &listener{fd: vListenFD, network: "udp", addr: vLocalUDP}
	vk.S[vListenFD] = vk.Sock{Owner: vk.Framework, Registered: true}
	_, sa := vSetDatagram("d1", 0)
	_ = sa
	replyLen := vNondetInt("reply.len")
	vAssume(0 <= replyLen && replyLen <= 65507)
	reply := vNondetBytes("reply", replyLen)
	k := vNondetInt("k")
	i := vNondetInt("i")
	vAssume(0 <= k && 0 <= i && i < 4)
	vk.S[vListenFD].WatchK = k
	// the destination IPv4 address in 4-byte form or in the 16-byte IPv4-mapped form (what net.ParseIP returns)
	ip4 := vNondetBytes("dst.ip", 4)
	dst := &net.UDPAddr{IP: net.IP(ip4), Port: vNondetInt("dst.port")}
	if vNondetBool("dst.ip.16byte_form") {
		ip16 := make(net.IP, 16)
		ip16[10], ip16[11] = 0xff, 0xff
		copy(ip16[12:], ip4)
		dst.IP = ip16
	}
	vAssume(0 <= dst.Port && dst.Port <= 65535)
	var n int
	var err error
	w.h.onTraffic = func(c *conn) Action {
		n, err = c.SendTo(reply, dst)
		return None
	}
	_ = w.el.readUDP(vListenFD, 0, 0)
	s := &vk.S[vListenFD]
	vAssert("C08.sendto.one_datagram", s.SentCount == 1 && s.SentLen == replyLen && n == replyLen && err == nil)
	to, ok := s.SentTo.(*unix.SockaddrInet4)
	vAssert("C08.sendto.given_address", ok && to.Port == dst.Port && to.Addr[i] == ip4[i])
	if k < replyLen {
		vAssert("C08.sendto.payload_intact", s.SentWatchB == reply[k])
	}
	vReach("C08.sendto.end")
}

// Two datagrams in a row from IPv6 senders (the dual-stack default listener reports every peer as an AF_INET6
// address): each event's RemoteAddr is that datagram's own source - all 16 address bytes and the port -, also when
// the two senders differ only in the address or only in the port, and each Write goes back to its own sender.
//
//verif: mode=int
func VH_C08_TwoPeersIPv6() {
	w := vNewWorld(vNondetBool("et"), 0)
	w.el.listeners[vListenFD] = &listener{fd: vListenFD, network: "udp", addr: vLocalUDP}
	vk.S[vListenFD] = vk.Sock{Owner: vk.Framework, Registered: true}
	i := vNondetInt("i")
	vAssume(0 <= i && i < 16)
	vAssume(len(w.el.buffer) >= 2) // (truncation of datagrams longer than the read buffer: VH_C08_ReadUDP)
	s := &vk.S[vListenFD]
	for round := 0; round < 2; round++ {
		tag := "d1"
		if round == 1 {
			tag = "d2"
		}
		sa := &unix.SockaddrInet6{Port: vNondetInt(tag + ".port")}
		vAssume(0 <= sa.Port && sa.Port <= 65535)
		copy(sa.Addr[:], vNondetBytes(tag+".ip6", 16))
		payload := vNondetBytes(tag+".payload", 2)
		s.DgramReady, s.Dgram, s.DgramFrom = true, payload, sa
		seenOK, traffics := false, 0
		before := s.SentCount
		w.h.onTraffic = func(c *conn) Action {
			traffics++
			ua, ok := c.RemoteAddr().(*net.UDPAddr)
			seenOK = ok && ua.Port == sa.Port && len(ua.IP) == 16 && ua.IP[i] == sa.Addr[i] && ua.Zone == ""
			b, _ := c.Next(-1)
			_, _ = c.Write(b)
			return None
		}
		err := w.el.readUDP(vListenFD, 0, 0)
		vAssert("C08.v6.one_event_per_datagram", err == nil && traffics == 1)
		vAssert("C08.v6.remote_addr_is_this_datagrams_sender", seenOK)
		to, ok := s.SentTo.(*unix.SockaddrInet6)
		vAssert("C08.v6.write_goes_back_to_this_sender", s.SentCount == before+1 && s.SentLen == 2 && ok && to.Port == sa.Port && to.Addr[i] == sa.Addr[i])
	}
	vReach("C08.v6.end")
}

// A zero-copy echo through AsyncWrite (documented as synchronous for UDP): the reply carries the bytes of the datagram
// it answers even when the next datagram is read into the loop buffer right afterwards, and has left before any
// queued task runs.
//
//verif: mode=int
func VH_C08_AsyncWriteEcho() {
	w := vNewWorld(vNondetBool("et"), 0)
	w.el.listeners[vListenFD] = &listener{fd: vListenFD, network: "udp", addr: vLocalUDP}
	vk.S[vListenFD] = vk.Sock{Owner: vk.Framework, Registered: true}
	s := &vk.S[vListenFD]
	k := vPick("k", 2)
	s.WatchK = k
	_, sa := vSetDatagram("d1", 0)
	vAssume(len(s.Dgram) == 2 && len(w.el.buffer) >= 2)
	first := s.Dgram[k]
	cb := 0
	w.h.onTraffic = func(c *conn) Action {
		b, _ := c.Next(-1)
		_ = c.AsyncWrite(b, func(Conn, error) error { cb++; return nil })
		return None
	}
	err := w.el.readUDP(vListenFD, 0, 0)
	vAssert("C08.async.sent_before_the_callback_returns", err == nil && s.SentCount == 1 && s.SentLen == 2 && s.SentWatchB == first && cb == 1)
	to, ok := s.SentTo.(*unix.SockaddrInet4)
	vAssert("C08.async.to_the_sender", ok && to.Port == sa.Port)
	// the next datagram re-uses the loop buffer; then whatever the loop has queued runs
	w.h.onTraffic = func(c *conn) Action { return None }
	_, _ = vSetDatagram("d2", 1)
	_ = w.el.readUDP(vListenFD, 0, 0)
	for {
		ran, _ := w.el.poller.VRunOne()
		if !ran {
			break
		}
	}
	vAssert("C08.async.nothing_else_sent_later", s.SentCount == 1 && s.SentWatchB == first)
	vReach("C08.async.end")
}
