package gnet

import (
	"errors"
	"net"
	"time"

	vk "github.com/panjf2000/gnet/v2/internal/vk"
	errorx "github.com/panjf2000/gnet/v2/pkg/errors"
)

// ---------------------------------------------------------------------------------------
// C19: the control API as a state machine, executed sequentially: handle never started / running /
// shut down; Stop's poll loop with the terminal flag flipping at a nondeterministic moment (set by
// "the engine's other goroutine") and a context that may end; argument validation; exactly one
// result callback per registration.
// ---------------------------------------------------------------------------------------

// vCtx: a context whose Done channel the harness controls
type vCtx struct {
	done chan struct{}
	err  error
}

func (c *vCtx) Deadline() (time.Time, bool) { return time.Time{}, false }
func (c *vCtx) Done() <-chan struct{}       { return c.done }
func (c *vCtx) Err() error                  { return c.err }
func (c *vCtx) Value(key any) any           { return nil }

var vErrCtx = errors.New("verif: context ended")

var vShutdownFlips int

// vIsShutdownPoll replaces e.eng.isShutdown() inside Engine.Stop's loop (scratch copy of gnet.go): the engine's own
// goroutine may complete the shutdown at any moment between two polls; the flag is monotone.
func vIsShutdownPoll(eng *engine) bool {
	if !eng.inShutdown.Load() && vNondetBool("shutdown_completes_now") {
		eng.inShutdown.Store(true)
		vShutdownFlips++
	}
	return eng.isShutdown()
}

const (
	vStateNil = iota
	vStateNoListeners
	vStateRunning
	vStateShutDown
)

func vEngineIn(state int, turnOff *int) Engine {
	if state == vStateNil {
		return Engine{}
	}
	w := vNewWorld(false, 0)
	w.eng.turnOff = func() { *turnOff++ }
	if state != vStateNoListeners {
		ln := &listener{fd: vListenFD, network: "tcp", address: "127.0.0.1:9000", addr: vLocalAddr}
		w.eng.listeners[vListenFD] = ln
		vk.S[vListenFD] = vk.Sock{Owner: vk.Framework, Listen: true}
	}
	if state == vStateShutDown {
		w.eng.inShutdown.Store(true)
	}
	return Engine{w.eng}
}

//verif: mode=int unwind=8
func VH_C19_HandleStates() {
	state := vPick("state", 4)
	turnOff := 0
	e := vEngineIn(state, &turnOff)
	var want error
	switch state {
	case vStateNil, vStateNoListeners:
		want = errorx.ErrEmptyEngine
	case vStateShutDown:
		want = errorx.ErrEngineInShutdown
	}
	vAssert("C19.validate", e.Validate() == want)
	n := e.CountConnections()
	vAssert("C19.countconnections", (want != nil && n == -1) || (want == nil && n == 0))
	fd, err := e.Dup()
	vAssert("C19.dup", (want != nil && err == want && fd == -1) || (want == nil && err == nil && fd >= 0 && vk.S[fd].Owner == vk.User))
	fd2, err2 := e.DupListener("tcp", "127.0.0.1:9000")
	vAssert("C19.duplistener", (want != nil && err2 == want && fd2 == -1) || (want == nil && err2 == nil && fd2 >= 0))
	_, err3 := e.DupListener("tcp", "10.9.9.9:1")
	vAssert("C19.duplistener.unknown", (want != nil && err3 == want) || (want == nil && err3 == errorx.ErrInvalidNetworkAddress))
	ch, err4 := e.Register(&vCtx{})
	vAssert("C19.register.without_target", ch == nil && ((want != nil && err4 == want) || (want == nil && err4 == errorx.ErrInvalidNetworkAddress)))
	if want != nil {
		// a handle that is not running: Stop reports the state and does nothing
		err5 := e.Stop(&vCtx{})
		vAssert("C19.stop.not_running_is_harmless", err5 == want && turnOff == 0)
	}
	vReach("C19.states.end")
}

//verif: mode=int unwind=8
func VH_C19_Stop() {
	turnOff := 0
	e := vEngineIn(vStateRunning, &turnOff)
	ctx := &vCtx{done: make(chan struct{})}
	if vNondetBool("ctx_already_expired") {
		ctx.err = vErrCtx
		close(ctx.done)
	}
	vShutdownFlips = 0
	vUnwindAssume(true) // the poll loop is bounded by the unwinding bound (environment-driven)
	err := e.Stop(ctx)
	vAssert("C19.stop.requests_shutdown_exactly_once", turnOff == 1)
	if err == nil {
		vAssert("C19.stop.nil_only_after_full_shutdown", e.eng.isShutdown() && vShutdownFlips == 1)
	} else {
		vAssert("C19.stop.error_is_the_contexts", err == vErrCtx && ctx.err == vErrCtx)
	}
	vAssert("C19.stop.never_clears_the_terminal_flag", vShutdownFlips == 0 || e.eng.isShutdown())
	// stopping again after completion is harmless
	if e.eng.isShutdown() {
		err2 := e.Stop(ctx)
		vAssert("C19.stop.twice_is_harmless", err2 == errorx.ErrEngineInShutdown && turnOff == 1)
	}
	vReach("C19.stop.end")
}

//verif: mode=int unwind=8
func VH_C19_LoopAPIValidation() {
	w := vNewWorld(false, 0)
	shut := vNondetBool("in_shutdown")
	if shut {
		w.eng.inShutdown.Store(true)
	}
	var nilAddr net.Addr
	var nilConn net.Conn
	ch, err := w.el.Register(&vCtx{}, nilAddr)
	ch2, err2 := w.el.Enroll(&vCtx{}, nilConn)
	err3 := w.el.Execute(&vCtx{}, nil)
	if shut {
		vAssert("C19.loop.in_shutdown", ch == nil && ch2 == nil && err == errorx.ErrEngineInShutdown && err2 == errorx.ErrEngineInShutdown && err3 == errorx.ErrEngineInShutdown)
	} else {
		vAssert("C19.loop.nil_address", ch == nil && err == errorx.ErrInvalidNetworkAddress)
		vAssert("C19.loop.nil_conn", ch2 == nil && err2 == errorx.ErrInvalidNetConn)
		vAssert("C19.loop.nil_runnable", err3 == errorx.ErrNilRunnable)
	}
	hi, lo := w.el.poller.VPending()
	vAssert("C19.loop.rejected_calls_have_no_effect", hi == 0 && lo == 0)
	vReach("C19.loopapi.end")
}

// the registration task reports back exactly once, whatever happens to the connection
//
//verif: mode=int unwind=8
func VH_C19_RegisterReportsOnce() {
	w := vNewWorld(vNondetBool("et"), 1<<20)
	c := newStreamConn("tcp", vConnFD, w.el, vRemoteSA, vLocalAddr, vRemoteAddr)
	vk.S[vConnFD] = vk.Sock{Owner: vk.Framework, Stream: true}
	if vNondetBool("registration_fails") {
		vk.FaultBudget = 1
	}
	act := vPick("onopen_action", 3)
	w.h.onOpen = func(cc *conn) ([]byte, Action) { return nil, Action(act) }
	reported := 0
	ccb := &connWithCallback{c: c, cb: func() { reported++ }}
	_ = w.el.register(ccb)
	vAssert("C19.register.exactly_one_report", reported == 1)
	vReach("C19.registeronce.end")
}

// the engine's own stop sequence: the terminal flag that Engine.Stop polls is raised only after every loop was told
// to exit and every listener and poller descriptor has been released; OnShutdown runs exactly once
//
//verif: mode=int unwind=8
func VH_C19_StopSequence() {
	w := vNewWorld(vNondetBool("et"), 1<<20)
	ln := &listener{fd: vListenFD, network: "tcp", address: "127.0.0.1:9000", addr: vLocalAddr}
	w.eng.listeners[vListenFD] = ln
	w.el.listeners[vListenFD] = ln
	vk.S[vListenFD] = vk.Sock{Owner: vk.Framework, Listen: true}
	shutdowns := 0
	w.h.onShutdown = func() { shutdowns++ }
	closedWhileFlagSet := 0
	vk.CloseHook = func(fd int) {
		if w.eng.isShutdown() {
			closedWhileFlagSet++
		}
	}
	ctx := &vCtx{done: make(chan struct{})}
	close(ctx.done)
	w.eng.stop(ctx, Engine{w.eng})
	hi, _ := w.el.poller.VPending()
	vAssert("C19.stopseq.onshutdown_once", shutdowns == 1)
	vAssert("C19.stopseq.every_loop_told_to_exit", hi == 1)
	vAssert("C19.stopseq.flag_raised_last", w.eng.isShutdown() && closedWhileFlagSet == 0)
	vAssert("C19.stopseq.descriptors_released_once", vk.S[vListenFD].Owner == vk.Free && vk.S[vListenFD].Closes == 1 &&
		vk.S[vEpollFD].Owner == vk.Free && vk.S[vEpollFD].Closes == 1 && vk.S[vEventFD].Owner == vk.Free && vk.S[vEventFD].Closes == 1)
	vReach("C19.stopseq.end")
}
