package gnet

import (
	"net"

	"golang.org/x/sync/errgroup"
	"golang.org/x/sys/unix"

	vk "github.com/panjf2000/gnet/v2/internal/vk"
	"github.com/panjf2000/gnet/v2/pkg/buffer/elastic"
	"github.com/panjf2000/gnet/v2/pkg/netpoll"
)

// ---------------------------------------------------------------------------------------
// The loop-step world (C01, C02, C04, C07, C08, C18): one engine, one event loop with the REAL
// poller code on top of the ghost kernel (internal/vk), a connection c in an arbitrary state that
// satisfies the representation invariant, optionally a bystander connection. No sockets, no
// goroutines: each harness runs ONE event (a poller callback, a queued task, an accept) with
// symbolic parameters and asserts its post-condition and the invariant again.
// ---------------------------------------------------------------------------------------

const (
	vEpollFD  = 3
	vEventFD  = 4
	vListenFD = 5
	vConnFD   = 7
	vConn2FD  = 9
	vNewFD    = 11
)

// per-connection ghost record kept by the handler
type vGhost struct {
	opens, closes, traffics int
	trafficAfterClose       int
	closeErrNil             bool
	openBeforeTraffic       bool
}

type vHandler struct {
	BuiltinEventEngine
	ghost map[*conn]*vGhost
	// scripted behaviour (set by the harness)
	onTraffic  func(c *conn) Action
	onOpen     func(c *conn) ([]byte, Action)
	onClose    func(c *conn, err error) Action
	onShutdown func()
}

func (h *vHandler) OnShutdown(Engine) {
	if h.onShutdown != nil {
		h.onShutdown()
	}
}

func (h *vHandler) g(c Conn) *vGhost {
	cc := c.(*conn)
	g := h.ghost[cc]
	if g == nil {
		g = &vGhost{}
		h.ghost[cc] = g
	}
	return g
}

func (h *vHandler) OnOpen(c Conn) ([]byte, Action) {
	g := h.g(c)
	g.opens++
	if g.traffics == 0 {
		g.openBeforeTraffic = true
	}
	if h.onOpen != nil {
		return h.onOpen(c.(*conn))
	}
	return nil, None
}

func (h *vHandler) OnClose(c Conn, err error) Action {
	g := h.g(c)
	g.closes++
	g.closeErrNil = err == nil
	if h.onClose != nil {
		return h.onClose(c.(*conn), err)
	}
	return None
}

func (h *vHandler) OnTraffic(c Conn) Action {
	g := h.g(c)
	g.traffics++
	if g.closes > 0 {
		g.trafficAfterClose++
	}
	if h.onTraffic != nil {
		return h.onTraffic(c.(*conn))
	}
	return None
}

// vLogger: a logger that swallows everything (formatting is not the subject of any property here)
type vLogger struct{}

func (vLogger) Debugf(string, ...any) {}
func (vLogger) Infof(string, ...any)  {}
func (vLogger) Warnf(string, ...any)  {}
func (vLogger) Errorf(string, ...any) {}
func (vLogger) Fatalf(string, ...any) {}

type vWorld struct {
	h   *vHandler
	eng *engine
	el  *eventloop
	c   *conn // connection under test (fd vConnFD)
	c2  *conn // bystander (fd vConn2FD), may be nil
}

// vNewWorld: engine + loop + poller; et/chunk symbolic unless fixed by the caller
func vNewWorld(et bool, chunk int) *vWorld {
	vk.Reset()
	vk.EdgeTriggered = et
	h := &vHandler{ghost: make(map[*conn]*vGhost)}
	opts := &Options{EdgeTriggeredIO: et, EdgeTriggeredIOChunk: chunk, ReadBufferCap: 0, WriteBufferCap: 0, Logger: vLogger{}}
	eng := &engine{opts: opts, eventHandler: h, listeners: make(map[int]*listener)}
	eng.concurrency.Group = new(errgroup.Group)
	lb := new(roundRobinLoadBalancer)
	eng.eventLoops = lb
	el := &eventloop{engine: eng, eventHandler: h, listeners: make(map[int]*listener)}
	el.connections.init()
	vk.S[vEpollFD] = vk.Sock{Owner: vk.Framework, IsEpoll: true}
	vk.S[vEventFD] = vk.Sock{Owner: vk.Framework, IsEvent: true, Registered: true}
	el.poller = netpoll.VNewPoller(vEpollFD, vEventFD)
	lb.register(el)
	rb := vNondetInt("readbuf")
	vAssume(1 <= rb && rb <= vMaxLen())
	el.buffer = vNondetBytes("loopbuf", rb)
	opts.ReadBufferCap = rb
	wb := vNondetInt("writecap")
	vAssume(1 <= wb && wb <= vMaxLen())
	opts.WriteBufferCap = wb
	return &vWorld{h: h, eng: eng, el: el}
}

var (
	vLocalAddr  net.Addr = &net.TCPAddr{IP: net.IP{10, 0, 0, 1}, Port: 9000}
	vLocalUDP   net.Addr = &net.UDPAddr{IP: net.IP{10, 0, 0, 1}, Port: 9000}
	vRemoteAddr net.Addr = &net.TCPAddr{IP: net.IP{10, 0, 0, 2}, Port: 40000}
	vRemoteSA            = &unix.SockaddrInet4{Port: 40000, Addr: [4]byte{10, 0, 0, 2}}
)

// vOpenConn: an opened, registered stream connection on descriptor fd in an arbitrary valid buffer state
func (w *vWorld) vOpenConn(fd int, tag string, anyInbound, anyOutbound bool) *conn {
	return w.vOpenConnX(fd, tag, anyInbound, anyOutbound, false)
}

// simpleOut: outbound buffer empty or holding one pending segment (nondeterministic), instead of an arbitrary shape
func (w *vWorld) vOpenConnX(fd int, tag string, anyInbound, anyOutbound, simpleOut bool) *conn {
	c := newStreamConn("tcp", fd, w.el, vRemoteSA, vLocalAddr, vRemoteAddr)
	vk.S[fd] = vk.Sock{Owner: vk.Framework, Stream: true, Registered: true, Events: netpoll.ReadEvents}
	if anyInbound {
		c.inboundBuffer = elastic.VAnyRB(tag + ".in")
	}
	if anyOutbound {
		c.outboundBuffer = *elastic.VAnyBuffer()
	} else if simpleOut {
		c.outboundBuffer = *elastic.VSimpleBuffer(vNondetBool(tag + ".out.pending"))
	}
	w.el.connections.addConn(c, w.el.idx)
	c.opened = true
	g := w.h.g(c)
	g.opens = 1
	g.openBeforeTraffic = true
	return c
}

// vConnInv: representation invariant of an open connection between events
func (w *vWorld) vConnInv(c *conn) bool {
	g := w.h.g(c)
	registered := w.el.connections.getConn(c.fd) == c
	if c.opened {
		return registered && g.opens == 1 && g.closes == 0 && len(c.buffer) == 0 &&
			elastic.VRBInv(&c.inboundBuffer) && elastic.VBufInv(&c.outboundBuffer) &&
			vk.S[c.fd].Owner == vk.Framework && vk.S[c.fd].Closes == 0
	}
	// closed: gone from the registry, one OnClose, descriptor closed exactly once
	return !registered && g.opens == 1 && g.closes == 1
}

// vClosedOK: after an event that closed c
func (w *vWorld) vClosedOK(c *conn, fd int) bool {
	g := w.h.g(c)
	return !c.opened && w.el.connections.getConn(fd) != c && g.closes == 1 && g.trafficAfterClose == 0 &&
		vk.S[fd].Owner == vk.Free && vk.S[fd].Closes == 1
}
