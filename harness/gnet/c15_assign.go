package gnet

import (
	vk "github.com/panjf2000/gnet/v2/internal/vk"
	"github.com/panjf2000/gnet/v2/pkg/netpoll"
)

// C15 (last sentence): the loop a connection is assigned to by the balancer is the loop on which it is registered and
// whose handler callbacks run. Main-reactor accept (accept0) with two sub-loops and each of the three policies.
//
//verif: mode=int unwind=8
func VH_C15_AssignedLoopRunsCallbacks() {
	w := vNewWorld(vNondetBool("et"), 1<<20)
	// second loop with its own poller (same ghost epoll/eventfd numbers are fine: registration is per descriptor)
	el2 := &eventloop{engine: w.eng, eventHandler: w.h, listeners: make(map[int]*listener)}
	el2.connections.init()
	el2.poller = netpoll.VNewPoller(vEpollFD, vEventFD)
	el2.buffer = make([]byte, 16)
	policy := vPick("policy", 3)
	var lb loadBalancer
	switch policy {
	case 0:
		lb = new(roundRobinLoadBalancer)
	case 1:
		lb = new(leastConnectionsLoadBalancer)
	default:
		lb = new(sourceAddrHashLoadBalancer)
	}
	lb.register(w.el)
	lb.register(el2)
	w.eng.eventLoops = lb
	if policy == 0 {
		vSetCursorA(&lb.(*roundRobinLoadBalancer).nextIndex, vNondetUint64("nextIndex"))
	}
	if policy == 1 {
		c1 := vNondetInt32("count0")
		c2 := vNondetInt32("count1")
		vAssume(c1 >= 0 && c2 >= 0 && c1 < 1000 && c2 < 1000)
		w.el.connections.incCount(0, c1)
		el2.connections.incCount(0, c2)
	}
	// the acceptor loop (main reactor) is a third loop object that only owns the listener
	acc := &eventloop{engine: w.eng, eventHandler: w.h, listeners: make(map[int]*listener)}
	acc.connections.init()
	acc.poller = netpoll.VNewPoller(vEpollFD, vEventFD)
	ln := &listener{fd: vListenFD, network: "tcp", addr: vLocalAddr}
	acc.listeners[vListenFD] = ln
	w.eng.listeners[vListenFD] = ln
	// as in engine.activateReactors every loop shares the engine's listener table
	w.el.listeners = w.eng.listeners
	el2.listeners = w.eng.listeners
	vk.S[vListenFD] = vk.Sock{Owner: vk.Framework, Listen: true, Registered: true, AcceptReady: true, AcceptFD: vNewFD, AcceptFrom: vRemoteSA}
	err := acc.accept0(vListenFD, 0x1, 0)
	vAssert("C15.assign.accept_ok", err == nil)
	h1, _ := w.el.poller.VPending()
	h2, _ := el2.poller.VPending()
	vAssert("C15.assign.exactly_one_loop_got_the_registration", h1+h2 == 1)
	target := w.el
	if h2 == 1 {
		target = el2
	}
	ran, rerr := target.poller.VRunOne()
	vAssert("C15.assign.registration_ran", ran && rerr == nil)
	c := target.connections.getConn(vNewFD)
	vAssert("C15.assign.registered_on_assigned_loop", c != nil && c.loop == target && c.opened && w.h.g(c).opens == 1)
	other := w.el
	if target == w.el {
		other = el2
	}
	vAssert("C15.assign.not_on_the_other_loop", other.connections.getConn(vNewFD) == nil)
	if policy == 1 {
		vAssert("C15.assign.least_connections_target", target.connections.loadCount()-1 <= other.connections.loadCount())
	}
	vReach("C15.assign.end")
}

// vSetCursorA: the cursor state after `accepts` calls of next() (see vSetCursor in c15_lb.go); generic so that the
// harness builds whatever integer type the cursor has.
func vSetCursorA[T uint8 | uint16 | uint32 | uint64 | uint | int32 | int64 | int](p *T, accepts uint64) {
	*p = T(accepts)
}
