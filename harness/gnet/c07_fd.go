package gnet

import (
	vk "github.com/panjf2000/gnet/v2/internal/vk"
)

// ---------------------------------------------------------------------------------------
// C07: descriptor ownership. The ghost kernel keeps a ledger (owner of every descriptor number,
// number of close(2) calls) and asserts on EVERY redirected system call that the framework owns
// the number it passes (labels C07.* inside internal/vk, checked in all loop-step harnesses). The
// harnesses below add the descriptor-specific scenarios: close with unsent output and a failing
// kernel, listeners and pollers closed exactly once, descriptors handed to the user never closed.
// ---------------------------------------------------------------------------------------

// closing a connection whose residual output cannot be flushed (EAGAIN, EPIPE, ...): the descriptor is still released
// exactly once, deregistered, and OnClose fires once
//
//verif: mode=int unwind=6
func VH_C07_CloseWithUnsentOutput() {
	w := vNewWorld(vNondetBool("et"), 1<<20)
	c := w.vOpenConn(vConnFD, "c", false, true)
	vAssume(c.outboundBuffer.Buffered() > 0)
	s := &vk.S[vConnFD]
	k := vPick("kernel", 3)
	switch k {
	case 0:
		s.NoSpace = true // the peer does not read
	case 1:
		s.WriteErr = 32 // EPIPE
	case 2:
		vk.FaultBudget = 1 // some call of the close path fails
	}
	vk.MaxWrites = 3
	err := w.el.close(c, nil)
	_ = err
	vAssert("C07.close.released_exactly_once", w.vClosedOK(c, vConnFD))
	vAssert("C07.close.deregistered", !vk.S[vConnFD].Registered)
	vReach("C07.closeunsent.end")
}

// Dup hands a descriptor to the user: closing the connection (or anything else the framework does) never closes it
//
//verif: mode=int unwind=6
func VH_C07_DupIsUsers() {
	w := vNewWorld(vNondetBool("et"), 1<<20)
	c := w.vOpenConn(vConnFD, "c", false, false)
	fd, err := c.Dup()
	vAssert("C07.dup.ok", err == nil && fd >= 0 && fd != vConnFD && vk.S[fd].Owner == vk.User)
	_ = w.el.close(c, nil)
	w.el.closeConns()
	_ = w.el.poller.Close()
	vAssert("C07.dup.never_closed_by_framework", vk.S[fd].Owner == vk.User && vk.S[fd].Closes == 0)
	vAssert("C07.poller.both_descriptors_closed_once", vk.S[vEpollFD].Owner == vk.Free && vk.S[vEpollFD].Closes == 1 &&
		vk.S[vEventFD].Owner == vk.Free && vk.S[vEventFD].Closes == 1)
	vReach("C07.dup.end")
}

// a listener is closed exactly once however often close is requested
//
//verif: mode=int unwind=6
func VH_C07_ListenerCloseOnce() {
	w := vNewWorld(false, 0)
	ln := &listener{fd: vListenFD, network: "tcp", address: "127.0.0.1:9000", addr: vLocalAddr}
	w.eng.listeners[vListenFD] = ln
	w.el.listeners[vListenFD] = ln
	vk.S[vListenFD] = vk.Sock{Owner: vk.Framework, Listen: true}
	dfd, err := ln.dup()
	vAssert("C07.listener.dup", err == nil && vk.S[dfd].Owner == vk.User)
	ln.close()
	ln.close()
	w.eng.closeEventLoops()
	vAssert("C07.listener.closed_exactly_once", vk.S[vListenFD].Owner == vk.Free && vk.S[vListenFD].Closes == 1)
	vAssert("C07.listener.dup_untouched", vk.S[dfd].Owner == vk.User && vk.S[dfd].Closes == 0)
	vReach("C07.listener.end")
}
