package gnet

import (
	"errors"

	"golang.org/x/sys/unix"

	vk "github.com/panjf2000/gnet/v2/internal/vk"
	errorx "github.com/panjf2000/gnet/v2/pkg/errors"
	"github.com/panjf2000/gnet/v2/pkg/queue"
)

// ---------------------------------------------------------------------------------------
// C18: the events of the loop-step world with fault injection: ONE system call made on behalf of
// connection c (read, write, writev, epoll_ctl mod/del, close) fails with a symbolic errno of a
// realistic set. Only c may be affected: it ends closed with one OnClose(err != nil) and its
// descriptor released; no panic; the result handed back to the poller is not an engine-stopping
// sentinel; the bystander connection is untouched.
// ---------------------------------------------------------------------------------------

type vBystander struct {
	c      *conn
	inLen  int
	outLen int
}

func vSnap(c *conn) vBystander {
	return vBystander{c: c, inLen: c.inboundBuffer.Buffered(), outLen: c.outboundBuffer.Buffered()}
}

func (w *vWorld) vUntouched(b vBystander) bool {
	g := w.h.g(b.c)
	s := &vk.S[b.c.fd]
	return b.c.opened && g.closes == 0 && g.traffics == 0 && w.el.connections.getConn(b.c.fd) == b.c &&
		s.Owner == vk.Framework && s.Closes == 0 && s.Reads == 0 && s.Writes == 0 &&
		b.c.inboundBuffer.Buffered() == b.inLen && b.c.outboundBuffer.Buffered() == b.outLen
}

func vNotSentinel(err error) bool {
	return !errors.Is(err, errorx.ErrEngineShutdown) && !errors.Is(err, errorx.ErrAcceptSocket)
}

//verif: mode=int unwind=6
func VH_C18_FaultOnConnEvent() {
	et := vNondetBool("et")
	w := vNewWorld(et, 1<<20)
	ev := vNondetInt("event")
	vAssume(0 <= ev && ev <= 3)
	// the flush event starts from an arbitrary outbound buffer; the others from "empty or one pending segment"
	c := w.vOpenConnX(vConnFD, "c", false, ev == 1, ev != 1)
	c2 := w.vOpenConn(vConn2FD, "c2", false, false)
	by := vSnap(c2)
	s := &vk.S[vConnFD]
	lo := c.outboundBuffer.Buffered()
	if !et && lo > 0 {
		s.Events = 0x1 | 0x2 | 0x4 // read|pri|write interest armed while output is pending (LT invariant)
	}
	vk.MaxReads, vk.MaxWrites = 1, 3
	vk.FaultBudget = 1
	reply := vNondetBytes("reply", 5)
	var err error
	switch ev {
	case 0: // readable: the handler answers with a Write
		s.Pending = vNondetBytes("pending", 4)
		w.h.onTraffic = func(cc *conn) Action {
			_, _ = cc.Write(reply)
			return None
		}
		err = c.processIO(vConnFD, 0x1, 0)
	case 1: // writable: flush
		vAssume(lo > 0)
		err = c.processIO(vConnFD, 0x4, 0)
	case 2: // asynchronous write task
		_ = c.AsyncWrite(reply, nil)
		_, err = w.el.poller.VRunOne()
	case 3: // asynchronous writev task
		_ = c.AsyncWritev([][]byte{reply, reply}, nil)
		_, err = w.el.poller.VRunOne()
	}
	g := w.h.g(c)
	vAssert("C18.engine_keeps_running", vNotSentinel(err))
	vAssert("C18.bystander_untouched", w.vUntouched(by))
	if vk.FaultCount > 0 && vk.FaultFD == vConnFD {
		// the failing call was made on behalf of c: c is closed with an error, exactly once, descriptor released
		vAssert("C18.failed_connection_is_closed_with_error", g.closes == 1 && !g.closeErrNil && w.vClosedOK(c, vConnFD))
	} else {
		vAssert("C18.no_fault_no_close", g.closes == 0 && c.opened)
	}
	vReach("C18.connevent.end")
}

// transient conditions have no visible effect: EAGAIN on read and on write
//
//verif: mode=int unwind=6
func VH_C18_TransientNoEffect() {
	et := vNondetBool("et")
	w := vNewWorld(et, 1<<20)
	c := w.vOpenConn(vConnFD, "c", true, true)
	li, lo := c.inboundBuffer.Buffered(), c.outboundBuffer.Buffered()
	s := &vk.S[vConnFD]
	s.NoSpace = true // the peer does not read: every write says EAGAIN
	if !et && lo > 0 {
		s.Events = 0x1 | 0x2 | 0x4
	}
	evBefore := s.Events
	var err error
	if vNondetBool("writable") {
		vAssume(lo > 0)
		err = c.processIO(vConnFD, 0x4, 0)
	} else {
		err = c.processIO(vConnFD, 0x1, 0) // readable but nothing there: EAGAIN
	}
	g := w.h.g(c)
	vAssert("C18.eagain.no_effect", err == nil && c.opened && g.closes == 0 && g.traffics == 0 &&
		c.inboundBuffer.Buffered() == li && c.outboundBuffer.Buffered() == lo && s.Events == evBefore && s.WireLen == 0)
	vReach("C18.transient.end")
}

// accept errors the code declares retryable are invisible; others stop only through the accept sentinel; a
// connection whose registration fails is closed once and never opened
//
//verif: mode=int unwind=6
func VH_C18_Accept() {
	w := vNewWorld(vNondetBool("et"), 1<<20)
	ln := &listener{fd: vListenFD, network: "tcp", addr: vLocalAddr}
	w.el.listeners[vListenFD] = ln
	w.eng.listeners[vListenFD] = ln
	vk.S[vListenFD] = vk.Sock{Owner: vk.Framework, Listen: true, Registered: true}
	l := &vk.S[vListenFD]
	l.AcceptReady = true
	l.AcceptFD = vNewFD
	l.AcceptFrom = vRemoteSA
	k := vNondetInt("accept.errno")
	vAssume(0 <= k && k <= 4)
	errnos := [5]unix.Errno{0, unix.EINTR, unix.ECONNABORTED, unix.ECONNRESET, unix.EMFILE}
	l.AcceptErr = errnos[k]
	reactor := vNondetBool("reactor_mode") // accept0 (main reactor) or accept (per-loop listener)
	failAdd := vNondetBool("registration_fails")
	if failAdd {
		vk.FaultBudget = 1
	}
	var err error
	if reactor {
		err = w.el.accept0(vListenFD, 0x1, 0)
		for {
			ran, e := w.el.poller.VRunOne()
			if !ran {
				break
			}
			if e != nil && err == nil {
				err = e
			}
		}
	} else {
		err = w.el.accept(vListenFD, 0x1, 0)
	}
	nc := w.el.connections.getConn(vNewFD)
	fatal := errnos[k] == unix.EMFILE
	if fatal {
		vAssert("C18.accept.fatal_is_the_accept_sentinel_only", errors.Is(err, errorx.ErrAcceptSocket) && nc == nil)
		vReach("C18.accept.fatal.end")
		return
	}
	vAssert("C18.accept.engine_keeps_running", vNotSentinel(err))
	accepted := reactor || k == 0 // accept() gives up for this event on a transient error, accept0() retries
	if !accepted {
		vAssert("C18.accept.transient_no_effect", nc == nil && l.AcceptReady && vk.S[vNewFD].Owner == vk.Free)
		vReach("C18.accept.transient.end")
		return
	}
	if vk.FaultCount > 0 {
		// registration (epoll_ctl add) failed: never opened, descriptor closed exactly once
		vAssert("C18.accept.failed_registration_closes_once", nc == nil && vk.S[vNewFD].Owner == vk.Free && vk.S[vNewFD].Closes == 1 && len(w.h.ghost) == 0)
	} else {
		vAssert("C18.accept.opened", nc != nil && nc.opened && w.h.g(nc).opens == 1 && w.h.g(nc).closes == 0 && nc.loop == w.el &&
			vk.S[vNewFD].Owner == vk.Framework && vk.S[vNewFD].Registered)
	}
	vReach("C18.accept.end")
}

// a failure while the connection is being opened (reply write, arming write interest): closed with an error,
// OnOpen and OnClose seen exactly once
//
//verif: mode=int unwind=6
func VH_C18_FaultOnOpen() {
	et := vNondetBool("et")
	w := vNewWorld(et, 1<<20)
	c2 := w.vOpenConn(vConn2FD, "c2", false, false)
	by := vSnap(c2)
	c := newStreamConn("tcp", vConnFD, w.el, vRemoteSA, vLocalAddr, vRemoteAddr)
	vk.S[vConnFD] = vk.Sock{Owner: vk.Framework, Stream: true}
	vk.MaxWrites = 3
	vk.FaultBudget = 1
	reply := vNondetBytes("reply", 6)
	w.h.onOpen = func(cc *conn) ([]byte, Action) { return reply, None }
	err := w.el.register0(c)
	g := w.h.ghost[c]
	vAssert("C18.open.engine_keeps_running", vNotSentinel(err))
	vAssert("C18.open.bystander_untouched", w.vUntouched(by))
	if vk.FaultCount > 0 && vk.FaultFD == vConnFD {
		if g == nil {
			// registration itself failed: never opened, descriptor closed once
			vAssert("C18.open.failed_registration_closes_once", vk.S[vConnFD].Owner == vk.Free && vk.S[vConnFD].Closes == 1 && w.el.connections.getConn(vConnFD) == nil)
		} else {
			vAssert("C18.open.failed_connection_is_closed_with_error", g.opens == 1 && g.closes == 1 && !g.closeErrNil && w.vClosedOK(c, vConnFD))
		}
	} else {
		vAssert("C18.open.no_fault_opened", g != nil && g.opens == 1 && g.closes == 0 && c.opened)
	}
	vReach("C18.open.end")
}

// The failed connection's own OnClose handler writes a farewell to it (gnet flushes data written in OnClose) while the
// socket is broken in both directions: the second failure, raised inside the callback, must not close the connection
// a second time, must not disturb the registry count and must not reach the bystander.
//
//verif: mode=int unwind=6
func VH_C18_WriteInOnCloseOfFailedConn() {
	et := vNondetBool("et")
	w := vNewWorld(et, 1<<20)
	c := w.vOpenConnX(vConnFD, "c", false, false, true)
	c2 := w.vOpenConn(vConn2FD, "c2", false, false)
	by := vSnap(c2)
	s := &vk.S[vConnFD]
	vk.MaxReads, vk.MaxWrites = 1, 3
	k := vPick("errno", 3)
	errnos := [3]unix.Errno{unix.ECONNRESET, unix.EPIPE, unix.ETIMEDOUT}
	s.ReadErr = errnos[k]
	s.WriteErr = unix.EPIPE
	bye := vNondetBytes("bye", 3)
	how := vPick("farewell", 3)
	said := false
	w.h.onClose = func(cc *conn, err error) Action {
		if said { // (says it once: keeps a re-entered OnClose from recursing without bound)
			return None
		}
		said = true
		switch how {
		case 0:
			_, _ = cc.Write(bye)
		case 1:
			_, _ = cc.Writev([][]byte{bye})
		case 2:
			_ = cc.Flush()
		}
		return None
	}
	err := c.processIO(vConnFD, 0x1, 0)
	g := w.h.g(c)
	vAssert("C18.farewell.engine_keeps_running", vNotSentinel(err))
	vAssert("C18.farewell.closed_exactly_once_with_error", g.closes == 1 && !g.closeErrNil && w.vClosedOK(c, vConnFD))
	vAssert("C18.farewell.count_is_opened_minus_closed", w.el.countConn() == 1)
	vAssert("C18.farewell.bystander_untouched", w.vUntouched(by))
	vReach("C18.farewell.end")
}

// One failure among the system calls of the close sequence itself (residual flush write, epoll_ctl del, close(2)),
// whatever started the close: the connection still ends closed exactly once with its descriptor released, the
// failure does not stop the engine and does not reach the bystander.
//
//verif: mode=int unwind=6
func VH_C18_FaultWhileClosing() {
	et := vNondetBool("et")
	w := vNewWorld(et, 1<<20)
	c := w.vOpenConnX(vConnFD, "c", false, false, true)
	c2 := w.vOpenConn(vConn2FD, "c2", false, false)
	by := vSnap(c2)
	s := &vk.S[vConnFD]
	vk.MaxReads, vk.MaxWrites = 1, 3
	cause := vPick("cause", 3)
	var err error
	switch cause {
	case 0: // orderly close by the peer
		s.Fin = true
		vk.FaultBudget = 1
		err = c.processIO(vConnFD, 0x1, 0)
	case 1: // the handler answers Close
		s.Pending = vNondetBytes("pending", 3)
		w.h.onTraffic = func(cc *conn) Action { return Close }
		vk.FaultBudget = 1
		err = c.processIO(vConnFD, 0x1, 0)
	case 2: // Close() request from another goroutine, executed by the loop
		_ = c.Close()
		vk.FaultBudget = 1
		_, err = w.el.poller.VRunOne()
	}
	g := w.h.g(c)
	vAssert("C18.closing.engine_keeps_running", vNotSentinel(err))
	vAssert("C18.closing.bystander_untouched", w.vUntouched(by))
	vAssert("C18.closing.closed_exactly_once_descriptor_released", g.closes == 1 && w.vClosedOK(c, vConnFD) && w.el.countConn() == 1)
	vReach("C18.closing.end")
}

// Isolation at the level of the reactor: the real eventloop.run() with the real Poller.Polling over a scripted batch
// "both connections readable" (either order), up to two injected failures among the system calls of the batch, then
// the shutdown task. The loop keeps going after the failing event; the other connection receives its bytes intact in
// one OnTraffic, answers them, and is closed only by the shutdown (nil error); the failed one sees one OnClose(err).
//
//verif: mode=int unwind=6
func VH_C18_ReactorBatchFaults() {
	et := vNondetBool("et")
	w := vNewWorld(et, 1<<20)
	c1 := w.vOpenConn(vConnFD, "c1", false, false)
	c2 := w.vOpenConn(vConn2FD, "c2", false, false)
	vk.MaxReads, vk.MaxWrites = 1, 2
	vk.FaultBudget = vCfg("batch_faults", 2) // a second failure may hit the close sequence of the failed connection
	p1 := vNondetBytes("p1", 2)
	p2 := vNondetBytes("p2", 2)
	vk.S[vConnFD].Pending = p1
	vk.S[vConn2FD].Pending = p2
	vk.S[vConnFD].AcceptAll, vk.S[vConn2FD].AcceptAll = true, true // (short writes under failure: VH_C18_FaultOnConnEvent)
	stops := 0
	w.eng.turnOff = func() { stops++ }
	var got [2][]byte
	w.h.onTraffic = func(c *conn) Action {
		b, _ := c.Next(-1)
		i := 0
		if c == c2 {
			i = 1
		}
		got[i] = append(got[i], b...)
		_, _ = c.Write(b) // echo
		return None
	}
	e1 := unix.EpollEvent{Fd: int32(vConnFD), Events: 0x1}
	e2 := unix.EpollEvent{Fd: int32(vConn2FD), Events: 0x1}
	batch := []unix.EpollEvent{e1, e2}
	if vNondetBool("c2_first") {
		batch = []unix.EpollEvent{e2, e1}
	}
	vk.Batches = [][]unix.EpollEvent{batch, {{Fd: int32(vEventFD), Events: 0x1}}}
	vk.WaitHook = func(call int) {
		if call == 2 {
			vk.FaultBudget = 0 // (the failure belongs to the batch; the shutdown sequence is C04's subject)
			_ = w.el.poller.Trigger(queue.HighPriority, func(_ any) error { return errorx.ErrEngineShutdown }, nil)
		}
	}
	err := w.el.run()
	vAssert("C18.batch.loop_survives_the_failure", err == nil && stops == 1 && vk.WaitCalls == 2)
	conns := [2]*conn{c1, c2}
	pend := [2][]byte{p1, p2}
	fds := [2]int{vConnFD, vConn2FD}
	for i := 0; i < 2; i++ {
		g := w.h.g(conns[i])
		vAssert("C18.batch.closed_exactly_once", g.opens == 1 && g.closes == 1 && g.trafficAfterClose == 0 && w.vClosedOK(conns[i], fds[i]))
		if vk.FaultedFD[fds[i]] {
			vAssert("C18.batch.failed_connection_sees_an_error", !g.closeErrNil)
		} else {
			// untouched by the other connection's failure: full inbound and outbound integrity, closed by shutdown only
			// (level-triggered: the kernel may deliver a non-empty prefix per read, the rest is re-notified later)
			n := vk.S[fds[i]].Roff
			vAssert("C18.batch.other_connection_served_normally", g.traffics == 1 && g.closeErrNil && n >= 1 && len(got[i]) == n && got[i][0] == pend[i][0] && (n < 2 || got[i][1] == pend[i][1]))
			vAssert("C18.batch.other_connection_echo_on_the_wire", vk.S[fds[i]].WireLen == n)
		}
	}
	vReach("C18.batch.end")
}
