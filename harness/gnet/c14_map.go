package gnet

// default build: map-based registry
func vVariantInv(r *vReg) bool {
	if len(r.cm.connMap) != len(r.live) {
		return false
	}
	for _, c := range r.live {
		if r.cm.connMap[c.fd] != c {
			return false
		}
	}
	return true
}

func vFreshPosition(r *vReg) bool { return len(r.cm.connMap) == 1 }
