package gnet

import (
	"golang.org/x/sys/unix"

	vk "github.com/panjf2000/gnet/v2/internal/vk"
	errorx "github.com/panjf2000/gnet/v2/pkg/errors"
	"github.com/panjf2000/gnet/v2/pkg/queue"
)

// ---------------------------------------------------------------------------------------
// C01 across events, through the real reactor: edge-triggered mode with a chunk limit. One
// readable edge is reported (epoll_wait #1); whatever the chunk limit leaves unread must be picked
// up by the follow-up read task the loop posts to itself (eventfd wake-ups, real Polling chores),
// with no further edge from the kernel: when the loop finally goes idle every pending byte has
// been handed to OnTraffic, in order, exactly once. The handler consumes a symbolic part of what
// it is offered each time (the rest is carried in the inbound buffer).
// epoll_wait script: #1 the connection's edge; #2.. the eventfd as long as it was written to;
// finally the shutdown task.
// ---------------------------------------------------------------------------------------

//verif: mode=int unwind=8 maxlen=3
func VH_C01_ReactorChunkFollowUp() { vReactorChunkFollowUp() }

// the same with sizes <= 4 (29 CPU-minutes)
//
//verif: mode=int unwind=8 maxlen=4 tier=thorough
func VH_C01_ReactorChunkFollowUp4() { vReactorChunkFollowUp() }

func vReactorChunkFollowUp() {
	chunk := vNondetInt("chunk")
	vAssume(1 <= chunk && chunk <= vMaxLen())
	w := vNewWorld(true, chunk)
	_ = w.vOpenConn(vConnFD, "c", false, false)
	pl := vNondetInt("pending.len")
	vAssume(1 <= pl && pl <= vMaxLen())
	pend := vNondetBytes("pending", pl)
	s := &vk.S[vConnFD]
	s.Pending = pend
	s.InEdge = true
	vk.MaxReads = 4
	stops := 0
	w.eng.turnOff = func() { stops++ }
	k := vNondetInt("k")
	vAssume(0 <= k && k < pl)
	consumed := 0
	okOrder := true
	w.h.onTraffic = func(cc *conn) Action {
		total := cc.InboundBuffered()
		if consumed+total != s.Roff {
			okOrder = false
		}
		n := vNondetInt("h.next.n")
		vAssume(0 <= n && n <= total)
		if n == 0 {
			return None // leaves everything
		}
		b, _ := cc.Next(n)
		if len(b) != n || (consumed <= k && k < consumed+n && b[k-consumed] != pend[k]) {
			okOrder = false
		}
		consumed += n
		return None
	}
	ev := unix.EpollEvent{Fd: int32(vConnFD), Events: 0x1}
	wake := unix.EpollEvent{Fd: int32(vEventFD), Events: 0x1}
	vk.Batches = [][]unix.EpollEvent{{ev}, {wake}, {wake}, {wake}, {wake}, {wake}}
	idleAt := 0
	vk.WaitHook = func(call int) {
		if call >= 2 && idleAt == 0 {
			hi, lo := w.el.poller.VPending()
			if hi+lo == 0 {
				// nothing queued: the loop would block now. Everything must have been offered by this point.
				idleAt = call
				_ = w.el.poller.Trigger(queue.HighPriority, func(_ any) error { return errorx.ErrEngineShutdown }, nil)
			}
		}
	}
	err := w.el.run()
	vAssert("C01.reactor.graceful", err == nil && stops == 1 && idleAt >= 2)
	vAssert("C01.reactor.no_readable_data_left_when_the_loop_goes_idle", s.Roff == pl)
	vAssert("C01.reactor.stream_prefix_in_order", okOrder)
	vReach("C01.reactor.end")
}
