package gnet

// vPick: a concrete index in [0,n) chosen nondeterministically
func vPick(name string, n int) int {
	k := vNondetInt(name)
	vAssume(0 <= k && k < n)
	for i := 0; i < n; i++ {
		if k == i {
			return i
		}
	}
	return 0
}
