package gnet

import (
	"net"

	vk "github.com/panjf2000/gnet/v2/internal/vk"
	"github.com/panjf2000/gnet/v2/pkg/netpoll"
)

// ---------------------------------------------------------------------------------------
// C04 / C07: lifecycle events on the loop-step world. Every harness starts from an opened
// connection in an arbitrary valid buffer state, runs ONE event and checks: OnClose at most once
// and only after OnOpen, nothing after OnClose, the right OnClose error, registry and descriptor
// ledger consistent (closed exactly once, no system call on a number the framework does not own).
// ---------------------------------------------------------------------------------------

// vCloseCause: how the event under test ends (or does not end) the connection
const (
	vCauseLocalTask     = iota // Close()/CloseWithCallback task executed by the loop
	vCauseActionClose          // OnTraffic returns Close
	vCauseSyncClose            // OnTraffic calls EventLoop.Close(c) itself, returns None
	vCausePeerEOF              // read(2) returns 0
	vCauseReadError            // read(2) fails with ECONNRESET
	vCauseErrEvent             // EPOLLERR|EPOLLHUP without readable/writable bits
	vCauseRdHupNoData          // EPOLLRDHUP without EPOLLIN (ET)
	vCauseCount
)

func vPickCause() int {
	k := vNondetInt("cause")
	vAssume(0 <= k && k < vCauseCount)
	for i := 0; i < vCauseCount; i++ {
		if k == i {
			return i
		}
	}
	return 0
}

//verif: mode=int unwind=6
func VH_C04_CloseOnce() {
	et := vNondetBool("et")
	w := vNewWorld(et, 1<<20)
	c := w.vOpenConn(vConnFD, "c", true, true)
	c2 := w.vOpenConn(vConn2FD, "c2", false, false)
	cause := vPickCause()
	vk.MaxReads = 1
	vk.MaxWrites = 3
	s := &vk.S[vConnFD]
	reentered := 0
	w.h.onClose = func(cc *conn, err error) Action {
		// a handler may try to close the connection again from inside OnClose: must be a no-op
		if vNondetBool("close_again_inside_onclose") {
			reentered++
			_ = w.el.Close(cc)
		}
		return None
	}
	var err error
	local := false
	switch cause {
	case vCauseLocalTask:
		local = true
		_ = c.CloseWithCallback(nil)
		ran, e := w.el.poller.VRunOne()
		vAssert("C04.close_task_was_queued", ran)
		err = e
	case vCauseActionClose:
		local = true
		s.Pending = vNondetBytes("pending", 3)
		w.h.onTraffic = func(cc *conn) Action { return Close }
		err = w.el.read(c)
	case vCauseSyncClose:
		local = true
		s.Pending = vNondetBytes("pending", 3)
		w.h.onTraffic = func(cc *conn) Action {
			_ = w.el.Close(cc)
			return None
		}
		err = w.el.read(c)
	case vCausePeerEOF:
		s.Fin = true
		err = w.el.read(c)
	case vCauseReadError:
		s.ReadErr = 104 // ECONNRESET
		err = w.el.read(c)
	case vCauseErrEvent:
		err = c.processIO(vConnFD, 0x8|0x10, 0) // EPOLLERR|EPOLLHUP
	case vCauseRdHupNoData:
		err = c.processIO(vConnFD, 0x2000, 0) // EPOLLRDHUP
	}
	g := w.h.g(c)
	vAssert("C04.event_returns_no_engine_error", err == nil)
	vAssert("C04.onclose_exactly_once", g.closes == 1 && g.opens == 1)
	vAssert("C04.nothing_after_onclose", g.trafficAfterClose == 0)
	vAssert("C04.onclose_error_nil_iff_local", g.closeErrNil == local)
	vAssert("C04.closed_state", w.vClosedOK(c, vConnFD))
	vAssert("C04.count_is_opened_minus_closed", w.el.countConn() == 1)
	// the bystander is untouched
	g2 := w.h.g(c2)
	vAssert("C04.bystander_untouched", c2.opened && g2.closes == 0 && g2.traffics == 0 && w.el.connections.getConn(vConn2FD) == c2 &&
		vk.S[vConn2FD].Owner == vk.Framework && vk.S[vConn2FD].Closes == 0 && vk.S[vConn2FD].Writes == 0 && vk.S[vConn2FD].Reads == 0)
	_ = reentered
	vReach("C04.closeonce.end")
}

// Requests that reach a connection which is already closed, while its descriptor NUMBER has been re-used by a new
// connection of the same loop (or by a foreign descriptor): wake / close are no-ops, asynchronous writes complete
// with a closed-connection error, nothing is done to the new owner of the number.
//
//verif: mode=int unwind=6
func VH_C04_StaleRequests() {
	et := vNondetBool("et")
	w := vNewWorld(et, 1<<20)
	old := w.vOpenConn(vConnFD, "old", false, false)
	_ = w.el.close(old, nil) // the real close path
	vAssert("C04.stale.setup_closed", w.vClosedOK(old, vConnFD))
	reuse := vNondetInt("reuse")
	vAssume(0 <= reuse && reuse <= 2)
	var nu *conn
	switch reuse {
	case 1: // a new connection of this loop got the same descriptor number
		nu = w.vOpenConn(vConnFD, "new", false, false)
	case 2: // somebody else in the process owns the number now
		vk.S[vConnFD] = vk.Sock{Owner: vk.Foreign, Stream: true, Pending: vNondetBytes("foreign.data", 4)}
	}
	cbCalls, cbErrClosed := 0, false
	cb := func(c Conn, err error) error {
		cbCalls++
		cbErrClosed = err == net.ErrClosed
		return nil
	}
	req := vNondetInt("request")
	vAssume(0 <= req && req <= 5)
	data := vNondetBytes("data", 3)
	isWrite := false
	switch req {
	case 0:
		_ = old.Wake(nil)
	case 1:
		_ = old.Close()
	case 2:
		_ = old.CloseWithCallback(nil)
	case 3:
		isWrite = true
		_ = old.AsyncWrite(data, cb)
	case 4:
		isWrite = true
		_ = old.AsyncWritev([][]byte{data}, cb)
	case 5: // a read follow-up task that was queued before the connection died (ET chunk limit)
		_ = w.el.poller.Trigger(1, w.el.read0, old)
	}
	before := vk.S[vConnFD]
	ran, err := w.el.poller.VRunOne()
	vAssert("C04.stale.task_ran", ran && (err == nil || (isWrite && err == net.ErrClosed)))
	g := w.h.g(old)
	vAssert("C04.stale.no_callbacks_for_closed_conn", g.closes == 1 && g.trafficAfterClose == 0)
	if isWrite {
		vAssert("C04.stale.async_write_reports_closed", cbCalls == 1 && cbErrClosed)
	}
	s := &vk.S[vConnFD]
	vAssert("C04.stale.descriptor_number_not_touched", s.Reads == before.Reads && s.Writes == before.Writes && s.Closes == before.Closes && s.Owner == before.Owner)
	if nu != nil {
		gn := w.h.g(nu)
		vAssert("C04.stale.new_owner_unaffected", nu.opened && gn.closes == 0 && gn.traffics == 0 && w.el.connections.getConn(vConnFD) == nu &&
			s.Owner == vk.Framework && s.Registered && s.Events == netpoll.ReadEvents && nu.outboundBuffer.IsEmpty())
	}
	vReach("C04.stale.end")
}

// Wake on an open connection: exactly one OnTraffic
//
//verif: mode=int unwind=6
func VH_C04_WakeOpen() {
	w := vNewWorld(vNondetBool("et"), 1<<20)
	c := w.vOpenConn(vConnFD, "c", true, false)
	act := vNondetInt("action")
	vAssume(0 <= act && act <= 2)
	w.h.onTraffic = func(cc *conn) Action { return Action(act) }
	cbCalls := 0
	_ = c.Wake(func(Conn, error) error { cbCalls++; return nil })
	ran, err := w.el.poller.VRunOne()
	g := w.h.g(c)
	vAssert("C04.wake.one_traffic_one_callback", ran && g.traffics == 1 && cbCalls == 1)
	switch Action(act) {
	case None:
		vAssert("C04.wake.none_keeps_open", err == nil && w.vConnInv(c))
	case Close:
		vAssert("C04.wake.close_action", err == nil && g.closes == 1 && g.closeErrNil && w.vClosedOK(c, vConnFD))
	case Shutdown:
		vAssert("C04.wake.shutdown_action_is_sentinel", err != nil)
	}
	vReach("C04.wake.end")
}

// closeConns (loop exit) closes every registered connection exactly once
//
//verif: mode=int unwind=6
func VH_C04_CloseConns() {
	w := vNewWorld(vNondetBool("et"), 1<<20)
	c := w.vOpenConn(vConnFD, "c", true, true)
	c2 := w.vOpenConn(vConn2FD, "c2", false, false)
	vk.MaxWrites = 3
	// whatever the handler answers from OnClose (also Shutdown), the sweep must reach every connection
	act := vPick("onclose_action", 3)
	w.h.onClose = func(cc *conn, err error) Action { return Action(act) }
	w.el.closeConns()
	vAssert("C04.closeconns.each_once", w.h.g(c).closes == 1 && w.h.g(c2).closes == 1)
	vAssert("C04.closeconns.all_released", w.vClosedOK(c, vConnFD) && w.vClosedOK(c2, vConn2FD) && w.el.countConn() == 0)
	vReach("C04.closeconns.end")
}

// a connected client UDP socket (Dial/Enroll of a udp address) that was closed: later requests on the stale object are
// no-ops even when a new connection of the same loop re-uses the descriptor number
//
//verif: mode=int unwind=6
func VH_C04_StaleUDPClient() {
	w := vNewWorld(vNondetBool("et"), 1<<20)
	old := newUDPConn(vConnFD, w.el, vLocalUDP, vRemoteSA, true)
	vk.S[vConnFD] = vk.Sock{Owner: vk.Framework, Registered: true}
	w.el.connections.addConn(old, 0)
	old.opened = true
	w.h.g(old).opens = 1
	_ = w.el.close(old, nil)
	vAssert("C04.staleudp.setup_closed", w.vClosedOK(old, vConnFD))
	nu := w.vOpenConn(vConnFD, "new", false, false)
	req := vPick("request", 3)
	switch req {
	case 0:
		_ = old.Wake(nil)
	case 1:
		_ = old.Close()
	case 2:
		_ = old.CloseWithCallback(nil)
	}
	ran, err := w.el.poller.VRunOne()
	g, gn := w.h.g(old), w.h.g(nu)
	vAssert("C04.staleudp.task_ran", ran && err == nil)
	vAssert("C04.staleudp.no_callbacks_for_closed_conn", g.closes == 1 && g.trafficAfterClose == 0)
	vAssert("C04.staleudp.new_owner_unaffected", nu.opened && gn.closes == 0 && gn.traffics == 0 && w.el.connections.getConn(vConnFD) == nu &&
		vk.S[vConnFD].Owner == vk.Framework && vk.S[vConnFD].Closes == 0 && w.el.countConn() == 1)
	vReach("C04.staleudp.end")
}

// Opening: whatever OnOpen answers (a reply or none; None / Close / Shutdown; or closing the connection itself from
// inside OnOpen), the handler has seen OnOpen exactly once and first, OnClose at most once and only for a locally
// requested reason (nil error), and the count is opened-minus-closed. Both registration entries (accept: register0
// directly; main reactor / client: the queued registration task).
//
//verif: mode=int unwind=6
func VH_C04_OpenActions() {
	et := vNondetBool("et")
	w := vNewWorld(et, 1<<20)
	c2 := w.vOpenConn(vConn2FD, "c2", false, false)
	c := newStreamConn("tcp", vConnFD, w.el, vRemoteSA, vLocalAddr, vRemoteAddr)
	vk.S[vConnFD] = vk.Sock{Owner: vk.Framework, Stream: true}
	vk.MaxWrites = 3
	act := Action(vPick("onopen.action", 3))
	closeInside := vNondetBool("close_inside_onopen")
	var reply []byte
	if vNondetBool("with_reply") {
		reply = vNondetBytes("reply", 3)
	}
	peerGone := vNondetBool("peer_gone") // the peer has already hung up: writing the reply fails with EPIPE
	if peerGone {
		vk.S[vConnFD].WriteErr = 32
	}
	w.h.onOpen = func(cc *conn) ([]byte, Action) {
		if closeInside {
			_ = w.el.Close(cc)
		}
		return reply, act
	}
	var err error
	if vNondetBool("through_the_task_queue") {
		_ = w.el.poller.Trigger(1, w.el.register, c)
		_, err = w.el.poller.VRunOne()
	} else {
		err = w.el.register0(c)
	}
	g := w.h.g(c)
	vAssert("C04.open.onopen_exactly_once_and_first", g.opens == 1 && g.openBeforeTraffic && g.traffics == 0)
	if peerGone && reply != nil && !closeInside {
		// the close is caused by the I/O failure, not requested locally: OnClose must say so
		vAssert("C04.open.failed_reply_closes_with_an_error", g.closes == 1 && !g.closeErrNil && w.vClosedOK(c, vConnFD) && w.el.countConn() == 1 && err == nil)
		vReach("C04.open.failed_reply.end")
		return
	}
	closed := closeInside || act == Close
	if closed {
		vAssert("C04.open.closed_once_with_nil_error", g.closes == 1 && g.closeErrNil && w.vClosedOK(c, vConnFD) && w.el.countConn() == 1)
	} else {
		vAssert("C04.open.stays_open", g.closes == 0 && c.opened && w.el.connections.getConn(vConnFD) == c && w.el.countConn() == 2 && w.vConnInv(c))
	}
	if act == Shutdown && !closeInside {
		vAssert("C04.open.shutdown_action_is_the_sentinel", err != nil)
	} else {
		vAssert("C04.open.no_engine_error", err == nil)
	}
	vAssert("C04.open.bystander_untouched", c2.opened && w.h.g(c2).closes == 0 && w.h.g(c2).traffics == 0)
	vReach("C04.open.end")
}
