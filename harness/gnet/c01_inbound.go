package gnet

import (
	"io"

	vk "github.com/panjf2000/gnet/v2/internal/vk"
	"github.com/panjf2000/gnet/v2/pkg/buffer/elastic"
)

// ---------------------------------------------------------------------------------------
// C01: one read event (eventloop.read / processIO) on a stream connection whose inbound buffer
// is in an arbitrary valid state (content I) while the ghost kernel holds P pending bytes
// (+ optional FIN). Abstract inbound stream of this event: A = I ++ P. Everything the handler
// obtains through Read/Next/Peek+Discard/WriteTo is compared with A at a free position k, inside
// the callback; what it leaves must be in the inbound buffer afterwards.
// ---------------------------------------------------------------------------------------

type vSink struct {
	total int
	kk    int
	got   byte
	have  bool
	limit int // < 0: takes everything; otherwise fails (short write + error) once limit bytes have been taken
}

var vErrSink = io.ErrClosedPipe

func (s *vSink) Write(p []byte) (int, error) {
	take := len(p)
	var err error
	if s.limit >= 0 && s.total+take > s.limit {
		take = s.limit - s.total
		err = vErrSink
	}
	if s.total <= s.kk && s.kk < s.total+take {
		s.got = p[s.kk-s.total]
		s.have = true
	}
	s.total += take
	return take, err
}

type vInbound struct {
	w        *vWorld
	c        *conn
	li       int  // bytes in the inbound buffer before the event
	k        int  // watched absolute position in A
	wantByte byte // A[k]
	consumed int  // bytes consumed by the handler so far in this event
	op       int
	calls    int
	offeredAtClose int
}

// check that b (obtained at stream offset 'at') agrees with A at the watched position
func (x *vInbound) checkBytes(label string, b []byte, at int) {
	if at <= x.k && x.k < at+len(b) {
		vAssert(label, b[x.k-at] == x.wantByte)
	}
}

func (x *vInbound) onTraffic(c *conn) Action {
	x.calls++
	roff := vk.S[c.fd].Roff
	total := x.li + roff - x.consumed
	vAssert("C01.inbound_buffered_equals_delivered_minus_consumed", c.InboundBuffered() == total)
	switch x.op {
	case 1: // Read
		n := vNondetInt("h.read.len")
		vAssume(0 <= n && n <= vMaxLen())
		p := vNondetBytes("h.read.buf", n)
		m, _ := c.Read(p)
		exp := n
		if exp > total {
			exp = total
		}
		vAssert("C01.read.count", m == exp)
		x.checkBytes("C01.read.bytes_are_stream_prefix", p[:m], x.consumed)
		x.consumed += m
	case 2: // Next
		n := vNondetInt("h.next.n")
		vAssume(-4 <= n && n <= vMaxLen())
		b, err := c.Next(n)
		if n > total {
			vAssert("C01.next.short_buffer_consumes_nothing", err == io.ErrShortBuffer && b == nil && c.InboundBuffered() == total)
		} else {
			exp := n
			if n <= 0 {
				exp = total
			}
			vAssert("C01.next.count", err == nil && len(b) == exp)
			x.checkBytes("C01.next.bytes_are_stream_prefix", b, x.consumed)
			x.consumed += exp
		}
	case 3: // Peek then Discard
		n := vNondetInt("h.peek.n")
		vAssume(-4 <= n && n <= vMaxLen())
		b, err := c.Peek(n)
		if n > total {
			vAssert("C01.peek.short_buffer", err == io.ErrShortBuffer)
		} else {
			exp := n
			if n <= 0 {
				exp = total
			}
			vAssert("C01.peek.count", err == nil && len(b) == exp)
			x.checkBytes("C01.peek.bytes_are_stream_prefix", b, x.consumed)
		}
		vAssert("C01.peek.does_not_consume", c.InboundBuffered() == total)
		d := vNondetInt("h.discard.n")
		vAssume(-4 <= d && d <= vMaxLen())
		m, _ := c.Discard(d)
		exp := d
		if d <= 0 || d > total {
			exp = total // gnet convention: n <= 0 (or more than available) means everything
		}
		vAssert("C01.discard.count", m == exp)
		x.consumed += exp
	case 4: // WriteTo a writer that takes everything, or one that fails after a symbolic number of bytes
		lim := vNondetInt("h.sink.limit")
		vAssume(-1 <= lim && lim <= vMaxLen())
		s := &vSink{kk: x.k - x.consumed, limit: lim}
		n, err := c.WriteTo(s)
		moved := total
		if lim >= 0 && lim < total {
			moved = lim
			vAssert("C01.writeto.failing_writer_reports_its_error", err != nil)
		} else {
			vAssert("C01.writeto.no_error", err == nil)
		}
		vAssert("C01.writeto.count", n == int64(moved) && s.total == moved)
		if x.consumed <= x.k && x.k < x.consumed+moved {
			vAssert("C01.writeto.bytes_are_stream_prefix", s.have && s.got == x.wantByte)
		}
		x.consumed += moved
	}
	vAssert("C01.consumed_plus_buffered_is_delivered", x.consumed+c.InboundBuffered() == x.li+roff)
	return None
}

func vInboundSetup(et bool) (*vWorld, *conn, *vInbound) { return vInboundSetupX(et, true) }

// anyInbound=false: the inbound buffer starts empty (cheap pre-state; the arbitrary ring is used where the interplay
// between leftover bytes and new bytes is the subject, and everywhere in the thorough tier)
func vInboundSetupX(et bool, anyInbound bool) (*vWorld, *conn, *vInbound) {
	chunk := 0
	if et {
		chunk = vNondetInt("chunk")
		vAssume(1 <= chunk && chunk <= vMaxLen())
	}
	w := vNewWorld(et, chunk)
	c := w.vOpenConn(vConnFD, "c", anyInbound, false)
	x := &vInbound{w: w, c: c}
	x.li = c.inboundBuffer.Buffered()
	pl := vNondetInt("pending.len")
	vAssume(0 <= pl && pl <= vMaxLen())
	s := &vk.S[vConnFD]
	s.Pending = vNondetBytes("pending", pl)
	s.Fin = vNondetBool("fin")
	vk.MaxReads = vCfg("reads", 2)
	x.k = vNondetInt("k")
	vAssume(0 <= x.k && x.k < x.li+pl)
	if x.k < x.li {
		x.wantByte = elastic.VRBAt(&c.inboundBuffer, x.k)
	} else {
		x.wantByte = s.Pending[x.k-x.li]
	}
	x.op = vNondetInt("h.op")
	vAssume(0 <= x.op && x.op <= 4)
	w.h.onTraffic = x.onTraffic
	w.h.onClose = func(c *conn, err error) Action {
		x.offeredAtClose = vk.S[vConnFD].Roff
		// OnClose is a callback too: what the handler has not consumed is still readable inside it
		vAssert("C01.onclose.consumed_plus_buffered_is_delivered", x.consumed+c.InboundBuffered() == x.li+vk.S[vConnFD].Roff)
		return None
	}
	return w, c, x
}

func (x *vInbound) after(label string) {
	w, c := x.w, x.c
	s := &vk.S[vConnFD]
	g := w.h.g(c)
	if g.closes > 0 {
		// closed (EOF / error): everything the peer sent before its orderly close was offered first
		vAssert("C01."+label+".all_offered_before_onclose", x.offeredAtClose == len(s.Pending))
		vAssert("C01."+label+".closed_cleanly", w.vClosedOK(c, vConnFD))
		vReach("C01." + label + ".closed.end")
		return
	}
	// still open: what the handler left is in the inbound buffer, in order
	vAssert("C01."+label+".remainder_len", len(c.buffer) == 0 && c.inboundBuffer.Buffered() == x.li+s.Roff-x.consumed)
	if x.consumed <= x.k && x.k < x.li+s.Roff {
		vAssert("C01."+label+".remainder_bytes", elastic.VRBAt(&c.inboundBuffer, x.k-x.consumed) == x.wantByte)
	}
	vAssert("C01."+label+".inv", w.vConnInv(c))
	if vk.EdgeTriggered {
		hi, lo := w.el.poller.VPending()
		vAssert("C01."+label+".et_no_readable_data_left_unoffered", len(s.Pending)-s.Roff == 0 || s.InEdge || hi+lo > 0)
	}
	vReach("C01." + label + ".open.end")
}

//verif: mode=int unwind=6
func VH_C01_ReadLT() {
	w, c, x := vInboundSetup(false)
	err := w.el.read(c)
	vAssert("C01.lt.no_engine_error", err == nil)
	x.after("lt")
}

//verif: mode=int unwind=6
func VH_C01_ReadET() {
	w, c, x := vInboundSetupX(true, vCfg("any_inbound_et", 0) == 1)
	err := w.el.read(c)
	vAssert("C01.et.no_engine_error", err == nil)
	x.after("et")
}

// EPOLLIN|EPOLLRDHUP in ET mode: drain until EOF, then close
//
//verif: mode=int unwind=6
func VH_C01_ProcessIORdHup() {
	_, c, x := vInboundSetupX(true, vCfg("any_inbound_et", 0) == 1)
	vk.S[vConnFD].Fin = true
	err := c.processIO(vConnFD, 0x1|0x2000, 0) // EPOLLIN | EPOLLRDHUP
	vAssert("C01.rdhup.no_engine_error", err == nil)
	x.after("rdhup")
}

// Same event with three data-carrying reads before the EOF: processIO first runs the ordinary read (which the chunk
// limit stops after one read), then sets isEOF and drains: two more reads, the later OnTraffic must see the remainder
// the handler left after the earlier ones followed by the new bytes. Inbound buffer initially empty, sizes <= 4; in
// the quick tier because the draining branch of eventloop.read is only exercised this way.
//
//verif: mode=int unwind=6 maxlen=4
func VH_C01_RdHupDrain3() {
	_, c, x := vInboundSetupX(true, false)
	vAssume(x.op <= 2) // leaves everything / Read / Next (Peek+Discard and WriteTo: single-read harnesses, thorough tier)
	vk.S[vConnFD].Fin = true
	vk.MaxReads = 3
	err := c.processIO(vConnFD, 0x1|0x2000, 0) // EPOLLIN | EPOLLRDHUP
	vAssert("C01.rdhup2.no_engine_error", err == nil)
	x.after("rdhup2")
}
