package gnet

import (
	"golang.org/x/sys/unix"

	vk "github.com/panjf2000/gnet/v2/internal/vk"
	errorx "github.com/panjf2000/gnet/v2/pkg/errors"
	"github.com/panjf2000/gnet/v2/pkg/queue"
)

// ---------------------------------------------------------------------------------------
// C04 / C07 at the level of the reactor: the real eventloop.run() / orbit() (dispatch closure, real
// Poller.Polling, task queues, closeConns on exit) over a scripted epoll_wait:
//   wait #1 -> a batch of one or two connection events (symbolic kinds, either order),
//   wait #2 -> the eventfd, after "another goroutine" has posted the engine's shutdown task.
// The handler of the first connection may close the other one synchronously (EventLoop.Close) or
// asynchronously, or answer Close; so the second event of the batch may be for a connection that
// is already closed (a stale event). When run() returns every connection has seen exactly one
// OnClose, nothing after it, every descriptor is closed exactly once and the registry is empty.
// ---------------------------------------------------------------------------------------

func vEvKind(name string) uint32 {
	switch vPick(name, 4) {
	case 0:
		return 0x1 // EPOLLIN
	case 1:
		return 0x4 // EPOLLOUT
	case 2:
		return 0x1 | 0x2000 // EPOLLIN|EPOLLRDHUP
	default:
		return 0x8 | 0x10 // EPOLLERR|EPOLLHUP
	}
}

func vReactorBatch(orbit bool) {
	et := vNondetBool("et")
	w := vNewWorld(et, 1<<20)
	c1 := w.vOpenConn(vConnFD, "c1", false, false)
	c2 := w.vOpenConn(vConn2FD, "c2", false, false)
	vk.MaxReads, vk.MaxWrites = 1, 2
	vk.AllowStaleDel = true
	vk.S[vConnFD].Pending = vNondetBytes("p1", 2)
	vk.S[vConn2FD].Pending = vNondetBytes("p2", 2)
	vk.S[vConnFD].Fin = vNondetBool("fin1")
	vk.S[vConn2FD].Fin = vNondetBool("fin2")
	stops := 0
	w.eng.turnOff = func() { stops++ }
	oca := Action(vPick("onclose.action", 3)) // whatever OnClose answers (None, Close, Shutdown)
	w.h.onClose = func(c *conn, err error) Action { return oca }
	how := vPick("c1.handler", 4)
	w.h.onTraffic = func(c *conn) Action {
		_, _ = c.Next(-1)
		if c != c1 {
			return None
		}
		switch how {
		case 1:
			_ = w.el.Close(c2) // synchronous close of the other connection from inside this callback
		case 2:
			_ = c2.Close() // asynchronous close request
		case 3:
			return Close
		}
		return None
	}
	// the batch: c1 first or c2 first, or only one of them
	e1 := unix.EpollEvent{Fd: int32(vConnFD), Events: vEvKind("ev1")}
	e2 := unix.EpollEvent{Fd: int32(vConn2FD), Events: vEvKind("ev2")}
	var batch []unix.EpollEvent
	nb := 4
	if !orbit {
		// SO_REUSEPORT mode: the loop owns a listener too, a pending connection is accepted inside the batch
		nb = 6
		ln := &listener{fd: vListenFD, network: "tcp", addr: vLocalAddr}
		w.el.listeners[vListenFD] = ln
		w.eng.listeners[vListenFD] = ln
		vk.S[vListenFD] = vk.Sock{Owner: vk.Framework, Listen: true, Registered: true, AcceptReady: true, AcceptFD: vNewFD, AcceptFrom: vRemoteSA}
	}
	eL := unix.EpollEvent{Fd: int32(vListenFD), Events: 0x1}
	switch vPick("batch", nb) {
	case 4:
		batch = []unix.EpollEvent{eL, e1}
	case 5:
		batch = []unix.EpollEvent{e2, eL}
	case 0:
		batch = []unix.EpollEvent{e1, e2}
	case 1:
		batch = []unix.EpollEvent{e2, e1}
	case 2:
		batch = []unix.EpollEvent{e1}
	default:
		batch = []unix.EpollEvent{e2}
	}
	// how the loop ends after the batch: the engine's shutdown task (graceful), a failing epoll_wait, or (run() only) an
	// accept that fails fatally (EMFILE) - on every exit the loop closes its connections before it returns
	nexit := 2
	if !orbit {
		nexit = 3
	}
	exit := vPick("exit", nexit)
	switch exit {
	case 0:
		vk.Batches = [][]unix.EpollEvent{batch, {{Fd: int32(vEventFD), Events: 0x1}}}
	case 1:
		vk.Batches = [][]unix.EpollEvent{batch} // the second epoll_wait fails (EBADF)
	case 2:
		vk.Batches = [][]unix.EpollEvent{batch, {eL}}
	}
	vk.WaitHook = func(call int) {
		if call != 2 {
			return
		}
		switch exit {
		case 0:
			// Engine.Stop from another goroutine: the shutdown task, exactly as engine.sigShutdown posts it
			_ = w.el.poller.Trigger(queue.HighPriority, func(_ any) error { return errorx.ErrEngineShutdown }, nil)
		case 2:
			vk.S[vListenFD].AcceptErr = unix.EMFILE
		}
	}
	var err error
	if orbit {
		err = w.el.orbit()
	} else {
		err = w.el.run()
	}
	if exit == 0 {
		vAssert("C04.batch.graceful_exit", err == nil && stops == 1 && vk.WaitCalls <= 2)
	} else {
		// (an OnClose answering Shutdown may end the loop gracefully before the failure is reached)
		vAssert("C04.batch.exit_signals_the_engine_once", stops == 1 && vk.WaitCalls <= 2 && (err != nil || oca == Shutdown))
	}
	g1, g2 := w.h.g(c1), w.h.g(c2)
	vAssert("C04.batch.each_connection_closed_exactly_once", g1.opens == 1 && g1.closes == 1 && g2.opens == 1 && g2.closes == 1)
	vAssert("C04.batch.nothing_after_onclose", g1.trafficAfterClose == 0 && g2.trafficAfterClose == 0)
	vAssert("C04.batch.descriptors_released_once", w.vClosedOK(c1, vConnFD) && w.vClosedOK(c2, vConn2FD))
	for c, g := range w.h.ghost {
		// (also the connection accepted inside the batch, if any)
		vAssert("C04.batch.every_opened_connection_closed_once", g.opens == 1 && g.closes == 1 && g.trafficAfterClose == 0 && !c.opened)
	}
	if vk.S[vNewFD].Closes > 0 || vk.S[vNewFD].Owner != vk.Free {
		vAssert("C04.batch.accepted_descriptor_released_once", vk.S[vNewFD].Owner == vk.Free && vk.S[vNewFD].Closes == 1)
	}
	vAssert("C04.batch.registry_empty", w.el.countConn() == 0)
	if vk.StaleDels > 0 {
		vReach("C04.batch.stale_event_dispatched") // an event for a connection closed earlier in the same batch
	}
	vReach("C04.batch.end")
}

//verif: mode=int unwind=6
func VH_C04_ReactorBatchRun() { vReactorBatch(false) }

//verif: mode=int unwind=6
func VH_C04_ReactorBatchOrbit() { vReactorBatch(true) }
