package gnet

import (
	"net"

	vk "github.com/panjf2000/gnet/v2/internal/vk"
)

// ---------------------------------------------------------------------------------------
// C12 / C17 at the connection level: releasing one connection must not hand memory that another
// live connection's address still refers to over to the byte-slice pool.
//
// Two connections whose *net.TCPAddr zone strings share their memory - which is what package net
// produces for connections dialled/enrolled to the same zoned IPv6 address (zone names come from
// net's interface/zone cache) and what plain string assignment produces in user code.
// ---------------------------------------------------------------------------------------

//verif: mode=int unwind=6
func VH_C12_ZoneStringRecycled() {
	w := vNewWorld(false, 0)
	client := vNondetBool("client_side") // a client engine has no listeners: release() then recycles the local zone too
	if !client {
		w.el.listeners[vListenFD] = &listener{fd: vListenFD, network: "tcp", addr: vLocalAddr}
	}
	zone := string(vNondetBytes("zone", 4)) // e.g. "eth0"
	mk := func(fd int) *conn {
		la := &net.TCPAddr{IP: net.IP{0xfe, 0x80, 0, 0, 0, 0, 0, 0, 0, 0, 0, 0, 0, 0, 0, 1}, Port: 9000, Zone: zone}
		ra := &net.TCPAddr{IP: net.IP{0xfe, 0x80, 0, 0, 0, 0, 0, 0, 0, 0, 0, 0, 0, 0, 0, 2}, Port: 40000, Zone: zone}
		c := newStreamConn("tcp", fd, w.el, vRemoteSA, la, ra)
		vk.S[fd] = vk.Sock{Owner: vk.Framework, Stream: true, Registered: true}
		w.el.connections.addConn(c, 0)
		c.opened = true
		w.h.g(c).opens = 1
		return c
	}
	a := mk(vConnFD)
	b := mk(vConn2FD)
	_ = w.el.close(a, nil)
	ra, ok := b.RemoteAddr().(*net.TCPAddr)
	vAssert("C12.zone.setup", ok && b.opened)
	vAssert("C12.zone.live_address_not_in_pool", !vReleasedStr(ra.Zone))
	la, ok2 := b.LocalAddr().(*net.TCPAddr)
	vAssert("C12.zone.live_local_address_not_in_pool", ok2 && !vReleasedStr(la.Zone))
	vReach("C12.zone.end")
}
