package gnet

import (
	"golang.org/x/sys/unix"

	vk "github.com/panjf2000/gnet/v2/internal/vk"
	errorx "github.com/panjf2000/gnet/v2/pkg/errors"
	"github.com/panjf2000/gnet/v2/pkg/queue"
)

// ---------------------------------------------------------------------------------------
// C02 across events, through the real reactor (run + Polling + task queues): a request arrives,
// the handler answers with Write / Writev / AsyncWrite of a symbolic reply while the kernel takes
// any prefix (short writes, EAGAIN); afterwards the kernel reports the socket writable whenever
// output is pending, the eventfd whenever tasks are queued. When the loop finally goes idle the
// whole reply is on the wire, in order, exactly once, nothing is buffered, and in level-triggered
// mode write interest is disarmed again ("accepted data never remains unsent forever").
// ---------------------------------------------------------------------------------------

//verif: mode=int unwind=8 maxlen=3
func VH_C02_ReactorBackpressure() { vReactorBackpressure(false) }

// the same with a small symbolic chunk limit in edge-triggered mode (the flush stops early and the loop posts itself
// follow-up write tasks): 20 CPU-minutes
//
//verif: mode=int unwind=16 maxlen=3 tier=thorough
func VH_C02_ReactorBackpressureChunked() { vReactorBackpressure(true) }

// Only meaningful in the unit that scales iovMax (the number of segments one flush round hands to writev) from 1024
// to 1: three 1-byte Writes while the socket is full leave three segments pending (ring + two list nodes, write
// buffer cap 1); then the kernel takes everything it is offered, so the flush needs three chunk-limited rounds in a
// row without any EAGAIN - the follow-up write task has to re-post itself each time.
//
//verif: mode=int unwind=16 maxlen=3 tier=thorough
func VH_C02_ReactorFollowUpChain() { vReactorBackpressure(true) }

func vReactorBackpressure(smallChunk bool) {
	et := vNondetBool("et")
	chunk := 1 << 20
	if et && smallChunk {
		// a small chunk limit: the flush stops early and the loop posts itself a follow-up write task
		chunk = vNondetInt("chunk")
		vAssume(1 <= chunk && chunk <= vMaxLen())
	}
	w := vNewWorld(et, chunk)
	c := w.vOpenConn(vConnFD, "c", false, false)
	s := &vk.S[vConnFD]
	s.Pending = vNondetBytes("req", 1)
	n := vNondetInt("reply.len")
	vAssume(1 <= n && n <= vMaxLen())
	reply := vNondetBytes("reply", n)
	k := vNondetInt("k")
	vAssume(0 <= k && k < n)
	s.WatchK = k
	want := reply[k]
	vk.MaxReads, vk.MaxWrites = 2, 8
	stops := 0
	w.eng.turnOff = func() { stops++ }
	nhow := 3
	if vCfg("iov_scaled", 0) == 1 {
		nhow = 4
	}
	how := vPick("reply.how", nhow)
	cbCalls := 0
	w.h.onTraffic = func(cc *conn) Action {
		_, _ = cc.Next(-1)
		switch how {
		case 0:
			m, err := cc.Write(reply)
			vAssert("C02.reactor.write_accepts_everything", m == n && err == nil)
		case 1:
			h := n / 2
			m, err := cc.Writev([][]byte{reply[:h], reply[h:]})
			vAssert("C02.reactor.writev_accepts_everything", m == n && err == nil)
		case 2:
			err := cc.AsyncWrite(reply, func(Conn, error) error { cbCalls++; return nil })
			vAssert("C02.reactor.asyncwrite_accepted", err == nil)
		case 3: // one Write per byte (each lands in a segment of its own once the socket said EAGAIN)
			for i := 0; i < n; i++ {
				m, err := cc.Write(reply[i : i+1])
				vAssert("C02.reactor.bytewise_write_accepts_everything", m == 1 && err == nil)
			}
		}
		return None
	}
	in := unix.EpollEvent{Fd: int32(vConnFD), Events: 0x1}
	out := unix.EpollEvent{Fd: int32(vConnFD), Events: 0x4}
	wake := unix.EpollEvent{Fd: int32(vEventFD), Events: 0x1}
	vk.Batches = make([][]unix.EpollEvent, 16)
	vk.Batches[0] = []unix.EpollEvent{in}
	idleAt := 0
	vk.WaitHook = func(call int) {
		if call < 2 || call > len(vk.Batches) || idleAt != 0 {
			return
		}
		hi, lo := w.el.poller.VPending()
		switch {
		case hi+lo > 0:
			vk.Batches[call-1] = []unix.EpollEvent{wake}
		case !c.outboundBuffer.IsEmpty():
			// the peer reads: the kernel reports the socket writable. Level-triggered: only if write interest is armed.
			// Edge-triggered: only as a transition, i.e. if the last write found the socket buffer full; output that
			// is pending behind a fully successful write with nothing queued would stay unsent forever.
			if !et {
				vAssert("C02.reactor.lt_write_interest_armed_while_output_pending", s.Events&0x4 != 0)
			} else if !s.Full {
				vAssert("C02.reactor.et_pending_output_always_has_a_follow_up_scheduled", false)
			}
			s.Full, s.Writable, s.EagainStreak = false, true, 0
			vk.Batches[call-1] = []unix.EpollEvent{out}
		default:
			idleAt = call
			_ = w.el.poller.Trigger(queue.HighPriority, func(_ any) error { return errorx.ErrEngineShutdown }, nil)
			vk.Batches[call-1] = []unix.EpollEvent{wake}
			// the state in which the loop would block: this is where "nothing remains unsent" must hold
			vAssert("C02.reactor.everything_on_the_wire_when_idle", s.WireLen == n && s.WatchOK && s.WatchB == want && c.outboundBuffer.IsEmpty())
			if !et {
				vAssert("C02.reactor.lt_write_interest_disarmed_when_drained", s.Events&0x4 == 0)
			}
		}
	}
	err := w.el.run()
	vAssert("C02.reactor.graceful", err == nil && stops == 1 && idleAt >= 2)
	if how == 2 {
		vAssert("C02.reactor.async_callback_once", cbCalls == 1)
	}
	vReach("C02.reactor.end")
}
