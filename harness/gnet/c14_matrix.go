package gnet

import "github.com/panjf2000/gnet/v2/internal/gfd"

// gc_opt build: compacting matrix. Invariant: the live entries occupy exactly the slots before the cursor
// (row, column) in row-major order, every live connection sits at the slot its gfd names, and the reverse
// index agrees with it.
func vVariantInv(r *vReg) bool {
	cm := &r.cm
	n := len(r.live)
	if cm.row*gfd.ConnMatrixColumnMax+cm.column != n {
		return false
	}
	if len(cm.fd2gfd) != n {
		return false
	}
	for _, c := range r.live {
		g, ok := cm.fd2gfd[c.fd]
		if !ok || g != c.gfd || g.Fd() != c.fd {
			return false
		}
		row, col := g.ConnMatrixRow(), g.ConnMatrixColumn()
		if row*gfd.ConnMatrixColumnMax+col >= n {
			return false // dense: no live entry at or behind the cursor
		}
		if cm.table[row] == nil || cm.table[row][col] != c {
			return false
		}
	}
	// per-row counters agree with the population
	for row := 0; row < 3; row++ {
		want := n - row*gfd.ConnMatrixColumnMax
		if want < 0 {
			want = 0
		}
		if want > gfd.ConnMatrixColumnMax {
			want = gfd.ConnMatrixColumnMax
		}
		if int(cm.connCounts[row]) != want {
			return false
		}
	}
	return true
}

func vFreshPosition(r *vReg) bool {
	c := r.live[0]
	return c.gfd.ConnMatrixRow() == 0 && c.gfd.ConnMatrixColumn() == 0 && r.cm.row == 0 && r.cm.column == 1
}
