package gnet

// ---------------------------------------------------------------------------------------
// C14: bounded histories of the real connection registry (conn_map.go in the default build,
// conn_matrix.go with -tags gc_opt) against a reference association list. Descriptor numbers are
// symbolic (any int, distinct among live connections, free to re-use removed numbers), the
// operation sequence is symbolic, and every lookup uses a free probe descriptor, so "nothing for
// any other descriptor" is covered.
// ---------------------------------------------------------------------------------------

type vReg struct {
	cm   connMatrix
	live []*conn
}

func vNewReg() *vReg {
	r := &vReg{}
	r.cm.init()
	return r
}

func (r *vReg) add() {
	fd := vNondetInt("fd")
	vAssume(fd >= 0)
	for _, c := range r.live {
		vAssume(c.fd != fd) // the kernel never hands out a descriptor number that is still open
	}
	c := &conn{fd: fd}
	r.cm.addConn(c, 0)
	r.live = append(r.live, c)
}

func (r *vReg) del(i int) {
	c := r.live[i]
	r.cm.delConn(c)
	nl := make([]*conn, 0, len(r.live))
	for j, x := range r.live {
		if j != i {
			nl = append(nl, x)
		}
	}
	r.live = nl
}

func (r *vReg) check(tag string) {
	probe := vNondetInt("probe")
	var want *conn
	for _, c := range r.live {
		if c.fd == probe {
			want = c
		}
	}
	got := r.cm.getConn(probe)
	vAssert("C14."+tag+".lookup_matches_model", got == want)
	vAssert("C14."+tag+".count", int(r.cm.loadCount()) == len(r.live))
	vAssert("C14."+tag+".variant_invariant", vVariantInv(r))
}

// arbitrary history of add / remove(any live) operations, checked after every step
//
//verif: unwind=40
func VH_C14_History() {
	r := vNewReg()
	steps := vCfg("steps", 4)
	for s := 0; s < steps; s++ {
		if len(r.live) == 0 || (len(r.live) < vCfg("maxlive", 3) && vNondetBool("add")) {
			r.add()
		} else {
			r.del(vPick("victim", len(r.live)))
		}
		r.check("history")
	}
	vReach("C14.history.end")
}

// populate with N connections, optionally remove one, then run the shutdown pattern: iterate and remove every
// visited connection
//
//verif: unwind=40
func VH_C14_IterateRemoveAll() {
	r := vNewReg()
	n := vPick("N", vCfg("maxpop", 4)) + 1
	for i := 0; i < n; i++ {
		r.add()
	}
	if vNondetBool("remove_one_first") {
		r.del(vPick("victim", len(r.live)))
	}
	visits := make(map[*conn]int)
	total := 0
	r.cm.iterate(func(c *conn) bool {
		visits[c]++
		total++
		r.cm.delConn(c)
		return true
	})
	vAssert("C14.iterate.visits_equal_live", total == len(r.live))
	for _, c := range r.live {
		vAssert("C14.iterate.each_exactly_once", visits[c] == 1)
	}
	vAssert("C14.iterate.empty_afterwards", r.cm.loadCount() == 0)
	probe := vNondetInt("probe")
	vAssert("C14.iterate.no_stale_lookup", r.cm.getConn(probe) == nil)
	// reusable
	r.live = nil
	r.add()
	r.check("reuse")
	vAssert("C14.iterate.reusable_from_start", vFreshPosition(r))
	vReach("C14.iterate.end")
}

// plain iteration (no removal) visits every live connection exactly once
//
//verif: unwind=40
func VH_C14_IteratePlain() {
	r := vNewReg()
	n := vPick("N", vCfg("maxpop", 4)) + 1
	for i := 0; i < n; i++ {
		r.add()
	}
	if vNondetBool("remove_one_first") {
		r.del(vPick("victim", len(r.live)))
	}
	visits := make(map[*conn]int)
	total := 0
	r.cm.iterate(func(c *conn) bool {
		visits[c]++
		total++
		return true
	})
	vAssert("C14.iterplain.visits_equal_live", total == len(r.live))
	for _, c := range r.live {
		vAssert("C14.iterplain.each_exactly_once", visits[c] == 1)
	}
	r.check("iterplain")
	vReach("C14.iterplain.end")
}
