package gnet

import (
	"net"
	"syscall"
	"time"

	vk "github.com/panjf2000/gnet/v2/internal/vk"
)

// ---------------------------------------------------------------------------------------
// C07: the descriptor Client.EnrollContext duplicates from the user's net.Conn is a descriptor the
// framework created: on every return that does not hand a connection to an event loop it must have
// been closed again (exactly once); the user's own descriptor is never touched beyond the dup.
// The user's connection is a net.Conn + syscall.Conn of a kind gnet does not serve (what *net.IPConn
// is for the real code): the paths up to and including the protocol dispatch are executed.
// ---------------------------------------------------------------------------------------

type vRaw struct{ fd uintptr }

func (r vRaw) Control(f func(uintptr)) error  { f(r.fd); return nil }
func (r vRaw) Read(func(uintptr) bool) error  { return nil }
func (r vRaw) Write(func(uintptr) bool) error { return nil }

type vUserConn struct {
	fd     int
	closed int
}

func (c *vUserConn) Read([]byte) (int, error)  { return 0, nil }
func (c *vUserConn) Write([]byte) (int, error) { return 0, nil }
func (c *vUserConn) Close() error {
	c.closed++
	return nil
}
func (c *vUserConn) LocalAddr() net.Addr                   { return vLocalAddr }
func (c *vUserConn) RemoteAddr() net.Addr                  { return vRemoteAddr }
func (c *vUserConn) SetDeadline(time.Time) error           { return nil }
func (c *vUserConn) SetReadDeadline(time.Time) error       { return nil }
func (c *vUserConn) SetWriteDeadline(time.Time) error      { return nil }
func (c *vUserConn) SyscallConn() (syscall.RawConn, error) { return vRaw{uintptr(c.fd)}, nil }

type vNoCtx struct{}

func (vNoCtx) Deadline() (time.Time, bool) { return time.Time{}, false }
func (vNoCtx) Done() <-chan struct{}       { return nil }
func (vNoCtx) Err() error                  { return nil }
func (vNoCtx) Value(key any) any           { return nil }

// the worker pool of EventLoop.Enroll runs the submitted function; running it at once is one of its legal schedules
func vSubmit(f func()) error {
	f()
	return nil
}

//verif: mode=int unwind=6
func VH_C07_ClientEnrollErrorPaths() {
	w := vNewWorld(vNondetBool("et"), 1<<20)
	sb := vNondetInt("SocketSendBuffer")
	rb := vNondetInt("SocketRecvBuffer")
	vAssume(0 <= sb && sb <= 1<<20 && 0 <= rb && rb <= 1<<20)
	w.eng.opts.SocketSendBuffer, w.eng.opts.SocketRecvBuffer = sb, rb
	cli := &Client{opts: w.eng.opts, eng: w.eng}
	const userFD = 9
	vk.S[userFD] = vk.Sock{Owner: vk.User, Stream: true}
	vk.FaultBudget = 1
	uc := &vUserConn{fd: userFD}
	before := vk.S
	gc, err := cli.EnrollContext(uc, nil)
	vAssert("C07.enroll.unsupported_kind_is_an_error", gc == nil && err != nil)
	vAssert("C07.enroll.users_descriptor_untouched", vk.S[userFD].Owner == vk.User && vk.S[userFD].Closes == 0 && uc.closed == 1)
	for fd := 0; fd < vk.NFD; fd++ {
		if fd == userFD {
			continue
		}
		s, b := &vk.S[fd], &before[fd]
		if b.Owner == vk.Free {
			// a descriptor created during the call: closed again, once
			vAssert("C07.enroll.no_descriptor_left_behind_on_error", s.Owner == vk.Free && s.Closes <= 1)
		} else {
			vAssert("C07.enroll.other_descriptors_untouched", s.Owner == b.Owner && s.Closes == b.Closes)
		}
	}
	vReach("C07.enroll.end")
}

// the same for EventLoop.Enroll (server side): exactly one result is delivered, it is an error, nothing is left behind
//
//verif: mode=int unwind=6
func VH_C07_LoopEnrollErrorPaths() {
	w := vNewWorld(vNondetBool("et"), 1<<20)
	const userFD = 9
	vk.S[userFD] = vk.Sock{Owner: vk.User, Stream: true}
	vk.FaultBudget = 1
	uc := &vUserConn{fd: userFD}
	before := vk.S
	ch, err := w.el.Enroll(vNoCtx{}, uc)
	vAssert("C07.loopenroll.accepted", err == nil && ch != nil)
	res, ok := <-ch
	_, more := <-ch
	vAssert("C19.enroll.exactly_one_result", ok && !more)
	vAssert("C07.loopenroll.unsupported_kind_is_an_error", res.Conn == nil && res.Err != nil)
	vAssert("C07.loopenroll.users_descriptor_untouched", vk.S[userFD].Owner == vk.User && vk.S[userFD].Closes == 0 && uc.closed == 1)
	for fd := 0; fd < vk.NFD; fd++ {
		if fd == userFD {
			continue
		}
		s, b := &vk.S[fd], &before[fd]
		if b.Owner == vk.Free {
			vAssert("C07.loopenroll.no_descriptor_left_behind_on_error", s.Owner == vk.Free && s.Closes <= 1)
		} else {
			vAssert("C07.loopenroll.other_descriptors_untouched", s.Owner == b.Owner && s.Closes == b.Closes)
		}
	}
	vReach("C07.loopenroll.end")
}
