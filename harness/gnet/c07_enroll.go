package gnet

import (
	"net"
	"syscall"
	"time"

	"golang.org/x/sys/unix"

	vk "github.com/panjf2000/gnet/v2/internal/vk"
)

// ---------------------------------------------------------------------------------------
// C07: the descriptor Client.EnrollContext duplicates from the user's net.Conn is a descriptor the
// framework created: on every return that does not hand a connection to an event loop it must have
// been closed again (exactly once); the user's own descriptor is never touched beyond the dup.
// The user's connection is a net.Conn + syscall.Conn of a kind gnet does not serve (what *net.IPConn
// is for the real code): the paths up to and including the protocol dispatch are executed.
// ---------------------------------------------------------------------------------------

type vRaw struct{ fd uintptr }

func (r vRaw) Control(f func(uintptr)) error  { f(r.fd); return nil }
func (r vRaw) Read(func(uintptr) bool) error  { return nil }
func (r vRaw) Write(func(uintptr) bool) error { return nil }

type vUserConn struct {
	fd     int
	closed int
}

func (c *vUserConn) Read([]byte) (int, error)  { return 0, nil }
func (c *vUserConn) Write([]byte) (int, error) { return 0, nil }
func (c *vUserConn) Close() error {
	c.closed++
	return nil
}
func (c *vUserConn) LocalAddr() net.Addr                   { return vLocalAddr }
func (c *vUserConn) RemoteAddr() net.Addr                  { return vRemoteAddr }
func (c *vUserConn) SetDeadline(time.Time) error           { return nil }
func (c *vUserConn) SetReadDeadline(time.Time) error       { return nil }
func (c *vUserConn) SetWriteDeadline(time.Time) error      { return nil }
func (c *vUserConn) SyscallConn() (syscall.RawConn, error) { return vRaw{uintptr(c.fd)}, nil }

type vNoCtx struct{}

func (vNoCtx) Deadline() (time.Time, bool) { return time.Time{}, false }
func (vNoCtx) Done() <-chan struct{}       { return nil }
func (vNoCtx) Err() error                  { return nil }
func (vNoCtx) Value(key any) any           { return nil }

// the worker pool of EventLoop.Enroll runs the submitted function; running it at once is one of its legal schedules
func vSubmit(f func()) error {
	f()
	return nil
}

//verif: mode=int unwind=6
func VH_C07_ClientEnrollErrorPaths() {
	w := vNewWorld(vNondetBool("et"), 1<<20)
	sb := vNondetInt("SocketSendBuffer")
	rb := vNondetInt("SocketRecvBuffer")
	vAssume(0 <= sb && sb <= 1<<20 && 0 <= rb && rb <= 1<<20)
	w.eng.opts.SocketSendBuffer, w.eng.opts.SocketRecvBuffer = sb, rb
	cli := &Client{opts: w.eng.opts, eng: w.eng}
	const userFD = 9
	vk.S[userFD] = vk.Sock{Owner: vk.User, Stream: true}
	vk.FaultBudget = 1
	uc := &vUserConn{fd: userFD}
	before := vk.S
	gc, err := cli.EnrollContext(uc, nil)
	vAssert("C07.enroll.unsupported_kind_is_an_error", gc == nil && err != nil)
	vAssert("C07.enroll.users_descriptor_untouched", vk.S[userFD].Owner == vk.User && vk.S[userFD].Closes == 0 && uc.closed == 1)
	for fd := 0; fd < vk.NFD; fd++ {
		if fd == userFD {
			continue
		}
		s, b := &vk.S[fd], &before[fd]
		if b.Owner == vk.Free {
			// a descriptor created during the call: closed again, once
			vAssert("C07.enroll.no_descriptor_left_behind_on_error", s.Owner == vk.Free && s.Closes <= 1)
		} else {
			vAssert("C07.enroll.other_descriptors_untouched", s.Owner == b.Owner && s.Closes == b.Closes)
		}
	}
	vReach("C07.enroll.end")
}

// the same for EventLoop.Enroll (server side): exactly one result is delivered, it is an error, nothing is left behind
//
//verif: mode=int unwind=6
func VH_C07_LoopEnrollErrorPaths() {
	w := vNewWorld(vNondetBool("et"), 1<<20)
	const userFD = 9
	vk.S[userFD] = vk.Sock{Owner: vk.User, Stream: true}
	vk.FaultBudget = 1
	uc := &vUserConn{fd: userFD}
	before := vk.S
	ch, err := w.el.Enroll(vNoCtx{}, uc)
	vAssert("C07.loopenroll.accepted", err == nil && ch != nil)
	res, ok := <-ch
	_, more := <-ch
	vAssert("C19.enroll.exactly_one_result", ok && !more)
	vAssert("C07.loopenroll.unsupported_kind_is_an_error", res.Conn == nil && res.Err != nil)
	vAssert("C07.loopenroll.users_descriptor_untouched", vk.S[userFD].Owner == vk.User && vk.S[userFD].Closes == 0 && uc.closed == 1)
	for fd := 0; fd < vk.NFD; fd++ {
		if fd == userFD {
			continue
		}
		s, b := &vk.S[fd], &before[fd]
		if b.Owner == vk.Free {
			vAssert("C07.loopenroll.no_descriptor_left_behind_on_error", s.Owner == vk.Free && s.Closes <= 1)
		} else {
			vAssert("C07.loopenroll.other_descriptors_untouched", s.Owner == b.Owner && s.Closes == b.Closes)
		}
	}
	vReach("C07.loopenroll.end")
}

// ---------------------------------------------------------------------------------------
// The successful hand-off (C04 / C07 / C17 / C19): a user TCP connection is enrolled (Client.EnrollContext,
// EventLoop.Enroll) or dialled and registered (EventLoop.Register). vUserTCP stands in for *net.TCPConn in the
// protocol switch; the loop goroutine is played by vAwaitOpened, which runs the loop's queued tasks.
// ---------------------------------------------------------------------------------------

type vUserTCP struct {
	vUserConn
	la, ra net.Addr
}

func (c *vUserTCP) LocalAddr() net.Addr  { return c.la }
func (c *vUserTCP) RemoteAddr() net.Addr { return c.ra }

var (
	vEnrollSA   unix.Sockaddr
	vDialResult *vUserTCP
	vDialCalls  int
)

// resolving the textual form of the connection's own peer address succeeds (pkg/socket is C17's unit-level subject)
func vGetTCPSockAddr(network, addr string) (unix.Sockaddr, int, *net.TCPAddr, bool, error) {
	return vEnrollSA, unix.AF_INET, nil, false, nil
}

// net.Dial: the connection the kernel established; its RemoteAddr is the peer actually reached, which need not be the
// textual dial target (unspecified IP, host name)
func vDial(network, address string) (net.Conn, error) {
	vDialCalls++
	return vDialResult, nil
}

func vAwaitOpened(el *eventloop, ch chan struct{}) {
	for i := 0; i < 4; i++ {
		select {
		case <-ch:
			return
		default:
		}
		if ran, _ := el.poller.VRunOne(); !ran {
			break
		}
	}
	<-ch
}

//verif: mode=int unwind=8
func VH_C07_EnrollHandOff() {
	w := vNewWorld(vNondetBool("et"), 1<<20)
	const userFD = 9
	vk.S[userFD] = vk.Sock{Owner: vk.User, Stream: true}
	ipb := vNondetBytes("peer.ip", 4)
	port := vNondetInt("peer.port")
	vAssume(0 < port && port < 65536)
	k := vPick("k", 4)
	peer := &net.TCPAddr{IP: net.IP{ipb[0], ipb[1], ipb[2], ipb[3]}, Port: port}
	local := &net.TCPAddr{IP: net.IP{10, 0, 0, 9}, Port: 51000}
	s4 := &unix.SockaddrInet4{Port: port}
	copy(s4.Addr[:], ipb)
	vEnrollSA = s4
	uc := &vUserTCP{vUserConn: vUserConn{fd: userFD}, la: local, ra: peer}
	vDialResult, vDialCalls = uc, 0
	// the address the caller passes to Register: the dial target, e.g. an unspecified IP with the port
	target := &net.TCPAddr{Port: port}
	var gc Conn
	var err error
	how := vPick("api", 3)
	switch how {
	case 0: // Client.EnrollContext
		cli := &Client{opts: w.eng.opts, eng: w.eng}
		gc, err = cli.EnrollContext(uc, nil)
	case 1: // EventLoop.Enroll
		ch, e := w.el.Enroll(vNoCtx{}, uc)
		vAssert("C19.handoff.accepted", e == nil && ch != nil)
		res, ok := <-ch
		_, more := <-ch
		vAssert("C19.handoff.exactly_one_result", ok && !more)
		gc, err = res.Conn, res.Err
	case 2: // EventLoop.Register: dials the target itself
		ch, e := w.el.Register(vNoCtx{}, target)
		vAssert("C19.handoff.accepted", e == nil && ch != nil)
		res, ok := <-ch
		_, more := <-ch
		vAssert("C19.handoff.exactly_one_result", ok && !more && vDialCalls == 1)
		gc, err = res.Conn, res.Err
	}
	vAssert("C19.handoff.usable_connection", err == nil && gc != nil)
	c := gc.(*conn)
	g := w.h.g(c)
	vAssert("C04.handoff.opened_once_on_the_loop", c.opened && g.opens == 1 && g.closes == 0 && g.traffics == 0 && c.loop == w.el && w.el.connections.getConn(c.fd) == c && w.el.countConn() == 1)
	vAssert("C07.handoff.descriptors", c.fd != userFD && vk.S[c.fd].Owner == vk.Framework && vk.S[c.fd].Registered && vk.S[c.fd].Closes == 0 &&
		vk.S[userFD].Owner == vk.User && vk.S[userFD].Closes == 0 && uc.closed == 1)
	ra, ok1 := c.RemoteAddr().(*net.TCPAddr)
	la, ok2 := c.LocalAddr().(*net.TCPAddr)
	vAssert("C17.handoff.remote_is_the_peer_actually_reached", ok1 && ra.Port == port && len(ra.IP) == 4 && ra.IP[k] == ipb[k])
	vAssert("C17.handoff.local_is_the_sockets_local_address", ok2 && la.Port == 51000 && len(la.IP) == 4 && la.IP[3] == 9)
	// the caller re-uses its address value for the next back-end: connections registered earlier are not affected
	target.Port = 1
	target.IP = net.IP{1, 1, 1, 1}
	ra2, _ := c.RemoteAddr().(*net.TCPAddr)
	vAssert("C17.handoff.remote_unaffected_by_the_callers_later_use_of_its_address_value", ra2 != nil && ra2.Port == port && ra2.IP[k] == ipb[k])
	// and the connection is closed like any other one
	_ = w.el.close(c, nil)
	vAssert("C04.handoff.closed_once", g.closes == 1 && w.vClosedOK(c, c.fd) && w.el.countConn() == 0)
	vReach("C07.handoff.end")
}
