package gnet

import (
	"net"
)

// ---------------------------------------------------------------------------------------
// C15: the real load-balancer code (load_balancer.go) on N real eventloop objects.
// N is concrete per path (chosen by a nondeterministic, bounded choice), counters and the
// round-robin cursor are symbolic.
// ---------------------------------------------------------------------------------------

func vLoops(lb loadBalancer, n int) []*eventloop {
	els := make([]*eventloop, n)
	for i := 0; i < n; i++ {
		el := &eventloop{}
		el.connections.init()
		lb.register(el)
		els[i] = el
	}
	return els
}

func vPickN(max int) int {
	n := vNondetInt("N")
	vAssume(1 <= n && n <= max)
	// make N concrete on each path (the registry is a Go slice of concrete length)
	for i := 1; i <= max; i++ {
		if n == i {
			return i
		}
	}
	return max
}

type vAddr struct{ s string }

func (a *vAddr) Network() string { return "tcp" }
func (a *vAddr) String() string  { return a.s }

// vSetCursor puts the round-robin cursor into the state that `accepts` calls of next() since start-up leave it in
// (the cursor starts at 0 and is advanced by one per call, so it holds accepts modulo the width of its type). It is
// generic over the cursor's integer type so that the harness still builds when that type changes.
func vSetCursor[T uint8 | uint16 | uint32 | uint64 | uint | int32 | int64 | int](p *T, accepts uint64) {
	*p = T(accepts)
}

// verif: mode=int unwind=300
func VH_C15_RoundRobin() {
	lb := new(roundRobinLoadBalancer)
	n := vPickN(vCfg("maxN", 16))
	els := vLoops(lb, n)
	start := vNondetUint64("nextIndex")
	vAssume(start < 1<<63) // 2^63 accepts are outside any real history
	vSetCursor(&lb.nextIndex, start)
	a := lb.next(nil)
	b := lb.next(nil)
	vAssert("C15.rr.registered", a != nil && b != nil && a.idx >= 0 && a.idx < n && els[a.idx] == a && els[b.idx] == b)
	vAssert("C15.rr.is_cursor_mod_n", uint64(a.idx) == start%uint64(n))
	vAssert("C15.rr.cyclic_successor", b.idx == (a.idx+1)%n)
	vReach("C15.rr.end")
}

// after k*N accepts every loop got exactly k (literal form of the statement, small N and k)
//
// verif: mode=int unwind=300
func VH_C15_RoundRobinCounts() {
	lb := new(roundRobinLoadBalancer)
	n := vPickN(vCfg("maxNcount", 4))
	vLoops(lb, n)
	k := vPickK()
	start := vNondetUint64("nextIndex")
	vAssume(start < 1<<63)
	vSetCursor(&lb.nextIndex, start)
	var got [8]int
	for i := 0; i < k*n; i++ {
		got[lb.next(nil).idx]++
	}
	for i := 0; i < n; i++ {
		vAssert("C15.rr.each_loop_got_k", got[i] == k)
	}
	vReach("C15.rrcounts.end")
}

func vPickK() int {
	k := vNondetInt("k")
	vAssume(1 <= k && k <= 3)
	for i := 1; i <= 3; i++ {
		if k == i {
			return i
		}
	}
	return 3
}

// verif: mode=int unwind=300
func VH_C15_LeastConnections() {
	lb := new(leastConnectionsLoadBalancer)
	n := vPickN(vCfg("maxNlc", 8))
	els := vLoops(lb, n)
	for i := 0; i < n; i++ {
		c := vNondetInt32("count")
		vAssume(c >= 0)
		els[i].connections.incCount(0, c)
	}
	el := lb.next(nil)
	vAssert("C15.lc.registered", el != nil && el.idx >= 0 && el.idx < n && els[el.idx] == el)
	j := vNondetInt("j") // free index => for all loops
	vAssume(0 <= j && j < n)
	var cj int32
	for i := 0; i < n; i++ {
		if i == j {
			cj = els[i].countConn()
		}
	}
	vAssert("C15.lc.minimal", el.countConn() <= cj)
	vReach("C15.lc.end")
}

// verif: mode=int unwind=300
func VH_C15_SourceAddrHash() {
	lb := new(sourceAddrHashLoadBalancer)
	n := vPickN(vCfg("maxN", 16))
	els := vLoops(lb, n)
	ln := vNondetInt("addrlen")
	vAssume(0 <= ln && ln <= 64)
	addr := &vAddr{s: string(vNondetBytes("addr", ln))}
	var a, b *eventloop
	panicked := vPanics(func() {
		a = lb.next(addr)
		b = lb.next(addr)
	})
	vAssert("C15.hash.never_panics", !panicked)
	vAssert("C15.hash.registered", a != nil && a.idx >= 0 && a.idx < n && els[a.idx] == a)
	vAssert("C15.hash.pure_function_of_address", a == b)
	vReach("C15.hash.end")
}

var _ net.Addr = (*vAddr)(nil)

// vstubAddrString stands for netAddr.String() in load_balancer.go (textual redirect, optional). Inside
// VH_C15_SourceAddrHashIPForms it is the printing contract of package net: a *net.TCPAddr / *net.UDPAddr with the same
// IPv4 address in 4-byte or in 16-byte (IPv4-in-IPv6) form, the same port and no zone print the same text.
var (
	vUseAddrText bool
	vAddrText    string
)

func vstubAddrString(a net.Addr) string {
	if vUseAddrText {
		return vAddrText
	}
	return a.String()
}

// the same remote address in the two encodings package net uses for IPv4 (accepted on an IPv4 vs a dual-stack listener,
// accepted vs enrolled) and as TCP or UDP address is served by the same loop: "pure function of the address string"
// (added for the seeded change C15-r5m1: a fast path that hashes the raw IP bytes)
//
// verif: mode=int unwind=300
func VH_C15_SourceAddrHashIPForms() {
	lb := new(sourceAddrHashLoadBalancer)
	n := vPickN(vCfg("maxN", 16))
	// odd loop counts only: CRC-32 is affine over GF(2), so hashes of related inputs tend to agree in their low bits and
	// a genuine difference would not reproduce natively for power-of-two counts (all N are covered by VH_C15_SourceAddrHash)
	vAssume(n >= 3 && n%2 == 1)
	vLoops(lb, n)
	b4 := vNondetBytes("ip4", 4)
	port := vNondetInt("port")
	vAssume(0 <= port && port <= 65532)
	ln := vNondetInt("addrlen")
	vAssume(0 <= ln && ln <= 64)
	vUseAddrText, vAddrText = true, string(vNondetBytes("addr", ln))
	ip4 := net.IP{b4[0], b4[1], b4[2], b4[3]}
	ip16 := net.IP{0, 0, 0, 0, 0, 0, 0, 0, 0, 0, 0xff, 0xff, b4[0], b4[1], b4[2], b4[3]}
	// four neighbouring ports, each pair compared on its own: an implementation that hashes something else than the
	// printed text is modelled with arbitrary hash values, and such a counterexample only counts when the real hashes
	// differ natively as well - four pairs make a coincidence of all of them unlikely (3^-4 for three loops)
	same := true
	panicked := vPanics(func() {
		for i := 0; i < 4; i++ {
			a := lb.next(&net.TCPAddr{IP: ip4, Port: port + i})
			b := lb.next(&net.TCPAddr{IP: ip16, Port: port + i})
			c := lb.next(&net.UDPAddr{IP: ip4, Port: port + i})
			if a != b || b != c {
				same = false
			}
		}
	})
	vUseAddrText = false
	vAssert("C15.hash.forms.never_panics", !panicked)
	vAssert("C15.hash.forms.same_loop_for_same_printed_address", same)
	vReach("C15.hash.forms.end")
}
