package gnet

import (
	"net"

	"golang.org/x/sys/unix"

	vk "github.com/panjf2000/gnet/v2/internal/vk"
)

// ---------------------------------------------------------------------------------------
// C17 (second sentence): for an accepted stream connection RemoteAddr is the address the kernel
// reported for the peer and LocalAddr is the listener's bound address - as seen inside OnOpen, after
// the accept, and still after another connection of the same loop has been opened and closed.
// Both accept paths (per-loop listener: accept; main reactor: accept0 + the registration task).
// ---------------------------------------------------------------------------------------

//verif: mode=int unwind=8
func VH_C17_AcceptedAddresses() {
	w := vNewWorld(vNondetBool("et"), 1<<20)
	fam := vPick("family", 3) // IPv4, IPv6, Unix-domain
	network := "tcp"
	var lnAddr net.Addr = vLocalAddr
	if fam == 2 {
		network = "unix"
		lnAddr = &net.UnixAddr{Name: "/run/gnet.sock", Net: "unix"}
	}
	ln := &listener{fd: vListenFD, network: network, addr: lnAddr}
	w.el.listeners[vListenFD] = ln
	w.eng.listeners[vListenFD] = ln
	port := vNondetInt("port")
	vAssume(0 <= port && port < 65536)
	ipb := vNondetBytes("ip", 16)
	uname := string(vNondetBytes("unix.name", 6)) // e.g. a client bound to "/tmp/c" or to an abstract "@name"
	n := 4
	var sa unix.Sockaddr
	switch fam {
	case 0:
		s4 := &unix.SockaddrInet4{Port: port}
		copy(s4.Addr[:], ipb[:4])
		sa = s4
	case 1:
		n = 16
		s6 := &unix.SockaddrInet6{Port: port}
		copy(s6.Addr[:], ipb)
		sa = s6
	default:
		sa = &unix.SockaddrUnix{Name: uname}
	}
	vk.S[vListenFD] = vk.Sock{Owner: vk.Framework, Listen: true, Registered: true, AcceptReady: true, AcceptFD: vNewFD, AcceptFrom: sa}
	k := vNondetInt("k")
	vAssume(0 <= k && k < n)
	okAddr := func(c *conn) bool {
		if fam == 2 {
			ua, ok := c.RemoteAddr().(*net.UnixAddr)
			return ok && ua.Net == "unix" && ua.Name == uname && c.LocalAddr() == lnAddr
		}
		ra, ok := c.RemoteAddr().(*net.TCPAddr)
		return ok && ra.Port == port && len(ra.IP) == n && ra.IP[k] == ipb[k] && ra.Zone == "" && c.LocalAddr() == lnAddr
	}
	inOpen := false
	w.h.onOpen = func(c *conn) ([]byte, Action) {
		inOpen = okAddr(c)
		return nil, None
	}
	var err error
	if vNondetBool("reactor_mode") {
		err = w.el.accept0(vListenFD, 0x1, 0)
		if err == nil {
			_, err = w.el.poller.VRunOne()
		}
	} else {
		err = w.el.accept(vListenFD, 0x1, 0)
	}
	c := w.el.connections.getConn(vNewFD)
	vAssert("C17.accept.opened", err == nil && c != nil && c.opened)
	vAssert("C17.accept.addresses_inside_onopen", inOpen)
	vAssert("C17.accept.addresses_after_accept", okAddr(c))
	// another connection of the same loop comes and goes
	b := w.vOpenConn(vConn2FD, "b", false, false)
	_ = w.el.close(b, nil)
	vAssert("C17.accept.addresses_unchanged_after_another_connection_closed", okAddr(c))
	vReach("C17.accept.end")
}
