package gnet

import (
	"io"

	vk "github.com/panjf2000/gnet/v2/internal/vk"
	"github.com/panjf2000/gnet/v2/pkg/buffer/elastic"
	"github.com/panjf2000/gnet/v2/pkg/netpoll"
)

// ---------------------------------------------------------------------------------------
// C02: one outbound operation (Write, Writev, the OnOpen reply, AsyncWrite task, flush on a
// writable event, ReadFrom+Flush) on a connection whose outbound buffer is in an arbitrary valid
// state, over a ghost kernel that accepts any prefix (short writes, EAGAIN). Abstract outbound
// stream: wire ++ outboundBuffer. Conservation and order are checked at a free position k:
// the k-th byte of (old outbound ++ newly accepted bytes) is afterwards either on the wire at
// position k or in the outbound buffer at position k - sent.
// ---------------------------------------------------------------------------------------

type vOutbound struct {
	w    *vWorld
	c    *conn
	lo   int  // bytes buffered before the operation
	k    int  // watched position in old-outbound ++ accepted
	want byte // its value
}

func vOutboundSetup(et bool) *vOutbound { return vOutboundSetupX(et, true) }

// anyShape=false: the outbound buffer is empty or holds one pending overflow segment (cheap pre-state for harnesses whose
// subject is not the buffer's internal shape; the arbitrary shape is used in the thorough tier)
func vOutboundSetupX(et bool, anyShape bool) *vOutbound {
	chunk := 0
	if et {
		chunk = vNondetInt("chunk")
		vAssume(1 <= chunk && chunk <= vMaxLen())
	}
	w := vNewWorld(et, chunk)
	c := w.vOpenConnX(vConnFD, "c", false, anyShape, !anyShape)
	x := &vOutbound{w: w, c: c, lo: c.outboundBuffer.Buffered()}
	// level-triggered invariant: write interest is armed exactly while output is pending
	if !et && x.lo > 0 {
		vk.S[vConnFD].Events = netpoll.ReadWriteEvents
	}
	if et {
		vk.S[vConnFD].Events = netpoll.ReadWriteEvents | 0x80000000 | 0x2000
		if x.lo > 0 {
			vk.S[vConnFD].Full = true // pending output in ET mode means the last write hit a full socket buffer
		}
	}
	vk.MaxWrites = vCfg("writes", 2)
	return x
}

// watch position k of the stream old-outbound ++ add (add = bytes accepted by this operation)
func (x *vOutbound) watch(addLen int, addAt func(i int) byte) {
	x.k = vNondetInt("k")
	vAssume(0 <= x.k && x.k < x.lo+addLen)
	if x.k < x.lo {
		x.want = elastic.VEAt(&x.c.outboundBuffer, x.k)
	} else {
		x.want = addAt(x.k - x.lo)
	}
	vk.S[vConnFD].WatchK = x.k // wire offsets are counted from this event's start (WireLen == 0)
}

func (x *vOutbound) after(label string, accepted int, directAllowed bool) {
	c, s := x.c, &vk.S[vConnFD]
	sent := s.WireLen
	if !c.opened {
		vAssert("C02."+label+".a_non_failing_kernel_never_closes_the_connection", false)
		return
	}
	vAssert("C02."+label+".conservation", sent+c.outboundBuffer.Buffered() == x.lo+accepted)
	vAssert("C02."+label+".outbound_buffered_reports_it", c.OutboundBuffered() == x.lo+accepted-sent)
	if !directAllowed {
		vAssert("C02."+label+".no_direct_write_behind_pending_data", sent == 0)
	}
	if x.k < sent {
		vAssert("C02."+label+".order_on_wire", s.WatchOK && s.WatchB == x.want)
	} else {
		vAssert("C02."+label+".order_in_buffer", elastic.VEAt(&c.outboundBuffer, x.k-sent) == x.want)
	}
	if !vk.EdgeTriggered {
		armed := s.Events&netpoll.WriteEvents != 0
		vAssert("C02."+label+".lt_write_interest_iff_pending", armed == !c.outboundBuffer.IsEmpty())
	} else if !c.outboundBuffer.IsEmpty() {
		hi, lo := x.w.el.poller.VPending()
		vAssert("C02."+label+".et_pending_output_will_be_flushed", s.Full || hi+lo > 0)
	}
	vAssert("C02."+label+".inv", elastic.VBufInv(&c.outboundBuffer) && x.w.el.connections.getConn(vConnFD) == c)
}

// verif: mode=int unwind=6
func VH_C02_Write() {
	x := vOutboundSetup(vNondetBool("et"))
	n := vNondetInt("n")
	vAssume(0 <= n && n <= vMaxLen())
	p := vNondetBytes("p", n)
	x.watch(n, func(i int) byte { return p[i] })
	m, err := x.c.Write(p)
	vAssert("C02.write.accepts_everything", m == n && err == nil)
	x.after("write", n, x.lo == 0)
	vReach("C02.write.end")
}

// verif: mode=int unwind=6
func VH_C02_Writev() {
	x := vOutboundSetupX(vNondetBool("et"), vCfg("any_shape", 0) == 1)
	segs := vPick("segs", vCfg("segs", 2)) + 1
	var bs [][]byte
	total := 0
	for i := 0; i < segs; i++ {
		n := vNondetInt("n")
		vAssume(0 <= n && n <= vMaxLen())
		bs = append(bs, vNondetBytes("p", n))
		total += n
	}
	cp := make([][]byte, len(bs))
	copy(cp, bs) // writev may re-slice the caller's vector
	x.watch(total, func(i int) byte {
		for _, b := range cp {
			if i < len(b) {
				return b[i]
			}
			i -= len(b)
		}
		return 0
	})
	m, err := x.c.Writev(bs)
	vAssert("C02.writev.accepts_everything", m == total && err == nil)
	x.after("writev", total, x.lo == 0)
	vReach("C02.writev.end")
}

// flush on a writable event / Flush(): eventloop.write
//
// verif: mode=int unwind=6
func VH_C02_Flush() {
	x := vOutboundSetup(vNondetBool("et"))
	vAssume(x.lo > 0)
	vk.S[vConnFD].Full = false // the kernel reported writability
	x.watch(0, func(i int) byte { return 0 })
	err := x.c.Flush()
	vAssert("C02.flush.no_error", err == nil)
	x.after("flush", 0, true)
	if vk.S[vConnFD].WireLen == 0 {
		vAssert("C02.flush.progress_unless_eagain", vk.S[vConnFD].Full)
	}
	vReach("C02.flush.end")
}

// the OnOpen reply: conn.open via eventloop.open
//
// verif: mode=int unwind=6
func VH_C02_OpenReply() {
	et := vNondetBool("et")
	w := vNewWorld(et, 1<<20)
	c := newStreamConn("tcp", vConnFD, w.el, vRemoteSA, vLocalAddr, vRemoteAddr)
	vk.S[vConnFD] = vk.Sock{Owner: vk.Framework, Stream: true}
	vk.MaxWrites = vCfg("writes", 2)
	n := vNondetInt("n")
	vAssume(1 <= n && n <= vMaxLen())
	reply := vNondetBytes("reply", n)
	w.h.onOpen = func(cc *conn) ([]byte, Action) { return reply, None }
	x := &vOutbound{w: w, c: c}
	x.watch(n, func(i int) byte { return reply[i] })
	err := w.el.register0(c)
	vAssert("C02.open.no_error", err == nil && w.h.g(c).opens == 1)
	x.after("open", n, true)
	vReach("C02.open.end")
}

// two asynchronous writes issued by one goroutine take effect in issue order
//
//verif: mode=int unwind=6 tier=thorough
func VH_C02_AsyncWriteOrder() {
	vAsyncOrder(false)
}

// the same with the urgent queue "saturated" (scaled stand-in for a backlog of >= 1024 urgent tasks, where low-priority
// requests are shunted to the low-priority queue): asynchronous writes must still take effect in issue order
//
//verif: mode=int unwind=6
func VH_C02_AsyncWriteOrderSaturated() {
	vAsyncOrder(true)
}

func vAsyncOrder(saturated bool) {
	x := vOutboundSetupX(vNondetBool("et"), !saturated && vCfg("any_shape", 0) == 1)
	n1 := vNondetInt("n1")
	n2 := vNondetInt("n2")
	vAssume(0 <= n1 && n1 <= vMaxLen() && 0 <= n2 && n2 <= vMaxLen())
	p1 := vNondetBytes("p1", n1)
	p2 := vNondetBytes("p2", n2)
	x.watch(n1+n2, func(i int) byte {
		if i < n1 {
			return p1[i]
		}
		return p2[i-n1]
	})
	if saturated {
		x.w.el.poller.VSetSaturated()
	}
	cb := 0
	first := vNondetBool("first_is_writev")
	if first {
		_ = x.c.AsyncWritev([][]byte{p1}, func(Conn, error) error { cb++; return nil })
	} else {
		_ = x.c.AsyncWrite(p1, func(Conn, error) error { cb++; return nil })
	}
	if saturated && vNondetBool("backlog_drained_between_the_requests") {
		x.w.el.poller.VSetUnsaturated()
	}
	_ = x.c.AsyncWrite(p2, func(Conn, error) error { cb++; return nil })
	r1, e1 := x.w.el.poller.VRunOne()
	r2, e2 := x.w.el.poller.VRunOne()
	vAssert("C02.async.both_ran_once", r1 && r2 && e1 == nil && e2 == nil && cb == 2)
	x.after("async", n1+n2, x.lo == 0)
	vReach("C02.async.end")
}

type vSrc struct {
	calls, maxCalls int
	total           int
	kk              int
	got             byte
	have            bool
}

func (r *vSrc) Read(p []byte) (int, error) {
	r.calls++
	m := vNondetInt("src.m")
	vAssume(0 <= m && m <= len(p))
	d := vNondetBytes("src.data", m)
	copy(p, d)
	if r.total <= r.kk && r.kk < r.total+m {
		r.got = d[r.kk-r.total]
		r.have = true
	}
	r.total += m
	if r.calls >= r.maxCalls || vNondetBool("src.eof") {
		return m, io.EOF
	}
	return m, nil
}

// ReadFrom (data source -> outbound buffer) followed by Flush keeps the order: new bytes go behind pending ones
//
// verif: mode=int unwind=6 tier=thorough
func VH_C02_ReadFromFlush() {
	vReadFromFlush(0)
}

// quick variant: pre-states in which the overflow list is already in use (the order-sensitive case: new data must
// go behind the list, not into free ring space); all pre-states are explored in the thorough tier
//
//verif: mode=int unwind=6 tier=thorough
func VH_C02_ReadFromFlushSpilled() {
	vReadFromFlush(1)
}

// quick variant: nothing pending before ReadFrom (in level-triggered mode no write interest is armed then, so a short
// write in Flush must arm it)
//
//verif: mode=int unwind=6
func VH_C02_ReadFromFlushIdle() {
	vReadFromFlush(2)
}

func vReadFromFlush(mode int) {
	x := vOutboundSetupX(vNondetBool("et"), mode != 2)
	if mode == 1 {
		vAssume(elastic.VListInUse(&x.c.outboundBuffer))
	}
	if mode == 2 {
		vAssume(x.lo == 0)
	}
	x.k = vNondetInt("k")
	vAssume(0 <= x.k && x.k <= 4*vMaxLen())
	if x.k < x.lo {
		x.want = elastic.VEAt(&x.c.outboundBuffer, x.k)
	}
	vk.S[vConnFD].WatchK = x.k
	src := &vSrc{maxCalls: 2, kk: x.k - x.lo}
	n, err := x.c.ReadFrom(src)
	vAssert("C02.readfrom.count", err == nil && n == int64(src.total))
	vAssume(x.k < x.lo+src.total)
	if x.k >= x.lo {
		vAssert("C02.readfrom.watched", src.have)
		x.want = src.got
	}
	vAssert("C02.readfrom.buffered_behind_pending", x.c.outboundBuffer.Buffered() == x.lo+src.total && elastic.VEAt(&x.c.outboundBuffer, x.k) == x.want)
	if x.c.outboundBuffer.Buffered() > 0 {
		vk.S[vConnFD].Full = false
		ferr := x.c.Flush()
		vAssert("C02.readfrom.flush_no_error", ferr == nil)
		x.after("readfrom", src.total, true)
	}
	vReach("C02.readfrom.end")
}

// more than IOV_MAX (1024) segments handed to Writev on an idle connection: the kernel stub rejects such a vector with
// EINVAL like writev(2); nothing may be lost and the connection must stay open. (Counts only: the per-byte order
// oracle of the other harnesses would fork on each of the 1025 segments.)
//
//verif: mode=int unwind=6
func VH_C02_Writev1025() {
	x := vOutboundSetupX(vNondetBool("et"), false)
	vAssume(x.lo == 0)
	s := &vk.S[vConnFD]
	s.AcceptAll = true // (a kernel that takes only a part is covered by the other Writev harnesses with 1..3 segments)
	s.WatchK = -1
	vk.MaxWrites = 3
	const n = 1025
	buf := vNondetBytes("p", n)
	bs := make([][]byte, n)
	for i := 0; i < n; i++ {
		bs[i] = buf[i : i+1]
	}
	m, err := x.c.Writev(bs)
	vAssert("C02.writev1025.a_non_failing_kernel_never_closes_the_connection", x.c.opened && err == nil && m == n)
	vAssert("C02.writev1025.conservation", s.WireLen+x.c.outboundBuffer.Buffered() == n)
	vReach("C02.writev1025.end")
}
