package gfd

// verif: mode=bv
func VH_C20_GFDRoundTrip() {
	fd := vNondetInt("fd")
	el := vNondetInt("el")
	row := vNondetInt("row")
	col := vNondetInt("col")
	vAssume(el >= 0 && el < EventLoopIndexMax && row >= 0 && row < ConnMatrixRowMax && col >= 0 && col < ConnMatrixColumnMax)
	g := NewGFD(fd, el, row, col)
	vAssert("C20.gfd.fd", g.Fd() == fd)
	vAssert("C20.gfd.el", g.EventLoopIndex() == el)
	vAssert("C20.gfd.row", g.ConnMatrixRow() == row)
	vAssert("C20.gfd.col", g.ConnMatrixColumn() == col)
	seq := g.Sequence()
	row2 := vNondetInt("row2")
	col2 := vNondetInt("col2")
	vAssume(row2 >= 0 && row2 < ConnMatrixRowMax && col2 >= 0 && col2 < ConnMatrixColumnMax)
	g.UpdateIndexes(row2, col2)
	vAssert("C20.gfd.upd.fd", g.Fd() == fd)
	vAssert("C20.gfd.upd.el", g.EventLoopIndex() == el)
	vAssert("C20.gfd.upd.seq", g.Sequence() == seq)
	vAssert("C20.gfd.upd.row", g.ConnMatrixRow() == row2)
	vAssert("C20.gfd.upd.col", g.ConnMatrixColumn() == col2)
	if fd > 2 && seq > 0 {
		vAssert("C20.gfd.validate", g.Validate())
	}
	vReach("C20.gfd.end")
}
