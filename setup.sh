#!/bin/sh
# offline build of the framework: the go/ssa dumper (module cache only); the Python engine needs no build
set -e
cd /verif/engine/ssajson
export GOFLAGS=-mod=mod GOPROXY=off GOSUMDB=off GOTOOLCHAIN=local
mkdir -p /verif/bin /verif/.work/tmp /verif/evidence/replay
go build -o /verif/bin/ssajson .
python3-vt -c "import z3; print('z3', z3.get_version_string())"
echo setup ok
