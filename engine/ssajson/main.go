// ssajson: load gnet packages (with overlay harnesses), build go/ssa and dump the
// functions reachable from the requested roots as JSON for the Python symbolic engine.
package main

import (
	"encoding/hex"
	"encoding/json"
	"flag"
	"fmt"
	"go/constant"
	"go/token"
	"go/types"
	"os"
	"sort"
	"strings"

	"golang.org/x/tools/go/packages"
	"golang.org/x/tools/go/ssa"
	"golang.org/x/tools/go/ssa/ssautil"
	"golang.org/x/tools/go/types/typeutil"
)

type J = map[string]interface{}

type dumper struct {
	prog     *ssa.Program
	fset     *token.FileSet
	tmap     typeutil.Map
	types    []J
	funcs    map[string]J
	seen     map[*ssa.Function]bool
	work     []*ssa.Function
	skipPkg  []string
	skipFn   map[string]bool
	rtTypes  []types.Type
	rtSeen   typeutil.Map
	invoked  map[string]bool
	methods  map[string]map[string]string // type id -> method name -> func
	globals  map[string]J
	external map[string]bool
	skipFile string
	opaqueID int
}

func (d *dumper) typeID(t types.Type) int {
	t = types.Unalias(t)
	if fmt.Sprintf("%T", t) == "*ssa.opaqueType" {
		// go/ssa's internal placeholder types (range iterators, deferStack): not hashable by typeutil
		if d.opaqueID == 0 {
			d.opaqueID = len(d.types)
			d.types = append(d.types, J{"k": "unknown", "name": "ssa.opaque", "s": t.String()})
		}
		return d.opaqueID
	}
	if v := d.tmap.At(t); v != nil {
		return v.(int)
	}
	id := len(d.types)
	d.types = append(d.types, nil)
	d.tmap.Set(t, id)
	var j J
	switch tt := t.(type) {
	case *types.Basic:
		j = J{"k": "basic", "name": tt.Name(), "info": int(tt.Info()), "bk": int(tt.Kind())}
	case *types.Named:
		name := tt.Obj().Name()
		if tt.Obj().Pkg() != nil {
			name = tt.Obj().Pkg().Path() + "." + name
		}
		if ta := tt.TypeArgs(); ta != nil && ta.Len() > 0 {
			var as []string
			for i := 0; i < ta.Len(); i++ {
				as = append(as, ta.At(i).String())
			}
			name += "[" + strings.Join(as, ",") + "]"
		}
		j = J{"k": "named", "name": name, "under": d.typeID(tt.Underlying())}
	case *types.Pointer:
		j = J{"k": "ptr", "elem": d.typeID(tt.Elem())}
	case *types.Slice:
		j = J{"k": "slice", "elem": d.typeID(tt.Elem())}
	case *types.Array:
		j = J{"k": "array", "elem": d.typeID(tt.Elem()), "len": tt.Len()}
	case *types.Struct:
		var fs []J
		for i := 0; i < tt.NumFields(); i++ {
			f := tt.Field(i)
			fs = append(fs, J{"n": f.Name(), "t": d.typeID(f.Type()), "emb": f.Embedded()})
		}
		j = J{"k": "struct", "fields": fs}
	case *types.Interface:
		var ms []string
		for i := 0; i < tt.NumMethods(); i++ {
			ms = append(ms, tt.Method(i).Name())
		}
		j = J{"k": "iface", "methods": ms}
	case *types.Signature:
		var ps, rs []int
		for i := 0; i < tt.Params().Len(); i++ {
			ps = append(ps, d.typeID(tt.Params().At(i).Type()))
		}
		for i := 0; i < tt.Results().Len(); i++ {
			rs = append(rs, d.typeID(tt.Results().At(i).Type()))
		}
		j = J{"k": "sig", "params": ps, "results": rs, "variadic": tt.Variadic()}
	case *types.Tuple:
		var ts []int
		for i := 0; i < tt.Len(); i++ {
			ts = append(ts, d.typeID(tt.At(i).Type()))
		}
		j = J{"k": "tuple", "elems": ts}
	case *types.Map:
		j = J{"k": "map", "key": d.typeID(tt.Key()), "elem": d.typeID(tt.Elem())}
	case *types.Chan:
		j = J{"k": "chan", "elem": d.typeID(tt.Elem())}
	case *types.TypeParam:
		j = J{"k": "typeparam", "name": tt.String()}
	default:
		j = J{"k": "unknown", "name": t.String()}
	}
	j["s"] = t.String()
	d.types[id] = j
	return id
}

func (d *dumper) skipped(fn *ssa.Function) bool {
	name := fn.String()
	if d.skipFn[name] {
		return true
	}
	if d.skipFile != "" && fn.Pos().IsValid() {
		f := d.fset.Position(fn.Pos()).Filename
		if strings.HasSuffix(f, "/"+d.skipFile) {
			return true
		}
	}
	var pkgPath string
	if fn.Pkg != nil {
		pkgPath = fn.Pkg.Pkg.Path()
	} else if fn.Object() != nil && fn.Object().Pkg() != nil {
		pkgPath = fn.Object().Pkg().Path()
	} else if o := fn.Origin(); o != nil && o.Pkg != nil {
		pkgPath = o.Pkg.Pkg.Path()
	}
	for _, p := range d.skipPkg {
		if pkgPath == p || strings.HasPrefix(pkgPath, p+"/") {
			return true
		}
	}
	return false
}

func (d *dumper) addFn(fn *ssa.Function) {
	if fn == nil || d.seen[fn] {
		return
	}
	d.seen[fn] = true
	if d.skipped(fn) || len(fn.Blocks) == 0 {
		d.external[fn.String()] = true
		return
	}
	d.work = append(d.work, fn)
}

func (d *dumper) addRuntimeType(t types.Type) {
	t = types.Unalias(t)
	if d.rtSeen.At(t) != nil {
		return
	}
	d.rtSeen.Set(t, true)
	d.rtTypes = append(d.rtTypes, t)
}

func (d *dumper) operand(v ssa.Value) interface{} {
	switch vv := v.(type) {
	case nil:
		return nil
	case *ssa.Const:
		j := J{"k": "const", "t": d.typeID(vv.Type())}
		if vv.Value == nil {
			j["v"] = nil
		} else {
			switch vv.Value.Kind() {
			case constant.Bool:
				j["v"] = constant.BoolVal(vv.Value)
			case constant.String:
				j["hex"] = hex.EncodeToString([]byte(constant.StringVal(vv.Value)))
			case constant.Int:
				j["v"] = vv.Value.ExactString()
			default:
				j["v"] = vv.Value.ExactString()
				j["float"] = true
			}
		}
		return j
	case *ssa.Global:
		return J{"k": "global", "n": vv.String(), "t": d.typeID(vv.Type())}
	case *ssa.Function:
		d.addFn(vv)
		return J{"k": "func", "n": vv.String(), "t": d.typeID(vv.Type())}
	case *ssa.Builtin:
		return J{"k": "builtin", "n": vv.Name()}
	default:
		return J{"k": "local", "n": v.Name()}
	}
}

func (d *dumper) operands(vs []ssa.Value) []interface{} {
	out := make([]interface{}, 0, len(vs))
	for _, v := range vs {
		out = append(out, d.operand(v))
	}
	return out
}

func (d *dumper) callCommon(c *ssa.CallCommon) J {
	j := J{"args": d.operands(c.Args)}
	if c.IsInvoke() {
		j["invoke"] = true
		j["method"] = c.Method.Name()
		j["recv"] = d.operand(c.Value)
		j["recvT"] = d.typeID(c.Value.Type())
		d.invoked[c.Method.Name()] = true
	} else {
		j["fn"] = d.operand(c.Value)
	}
	j["sig"] = d.typeID(c.Signature())
	return j
}

func (d *dumper) pos(p token.Pos) string {
	if !p.IsValid() {
		return ""
	}
	ps := d.fset.Position(p)
	f := ps.Filename
	if i := strings.LastIndex(f, "/"); i >= 0 {
		f = f[i+1:]
	}
	return fmt.Sprintf("%s:%d", f, ps.Line)
}

func (d *dumper) dumpFn(fn *ssa.Function) {
	j := J{"name": fn.String(), "sig": d.typeID(fn.Signature)}
	if fn.Pkg != nil {
		j["pkg"] = fn.Pkg.Pkg.Path()
	}
	if fn.Synthetic != "" {
		j["synthetic"] = fn.Synthetic
	}
	var ps []J
	for _, p := range fn.Params {
		ps = append(ps, J{"n": p.Name(), "t": d.typeID(p.Type())})
	}
	j["params"] = ps
	var fvs []J
	for _, p := range fn.FreeVars {
		fvs = append(fvs, J{"n": p.Name(), "t": d.typeID(p.Type())})
	}
	j["freevars"] = fvs
	j["recover"] = -1
	if fn.Recover != nil {
		j["recover"] = fn.Recover.Index
	}
	var blocks []J
	for _, b := range fn.Blocks {
		bj := J{"i": b.Index, "comment": b.Comment}
		var preds, succs []int
		for _, p := range b.Preds {
			preds = append(preds, p.Index)
		}
		for _, s := range b.Succs {
			succs = append(succs, s.Index)
		}
		bj["preds"] = preds
		bj["succs"] = succs
		var ins []J
		for _, in := range b.Instrs {
			ij := d.instr(in)
			if ij != nil {
				ins = append(ins, ij)
			}
		}
		bj["instrs"] = ins
		blocks = append(blocks, bj)
	}
	j["blocks"] = blocks
	d.funcs[fn.String()] = j
}

func (d *dumper) instr(in ssa.Instruction) J {
	j := J{"pos": d.pos(in.Pos())}
	if v, ok := in.(ssa.Value); ok {
		j["name"] = v.Name()
		j["t"] = d.typeID(v.Type())
	}
	switch x := in.(type) {
	case *ssa.DebugRef:
		return nil
	case *ssa.Alloc:
		j["op"] = "Alloc"
		j["heap"] = x.Heap
		j["comment"] = x.Comment
	case *ssa.BinOp:
		j["op"] = "BinOp"
		j["binop"] = x.Op.String()
		j["x"] = d.operand(x.X)
		j["y"] = d.operand(x.Y)
		j["xt"] = d.typeID(x.X.Type())
	case *ssa.UnOp:
		j["op"] = "UnOp"
		j["unop"] = x.Op.String()
		j["x"] = d.operand(x.X)
		j["commaok"] = x.CommaOk
		j["xt"] = d.typeID(x.X.Type())
	case *ssa.Call:
		j["op"] = "Call"
		j["call"] = d.callCommon(&x.Call)
	case *ssa.Go:
		j["op"] = "Go"
		j["call"] = d.callCommon(&x.Call)
	case *ssa.Defer:
		j["op"] = "Defer"
		j["call"] = d.callCommon(&x.Call)
	case *ssa.RunDefers:
		j["op"] = "RunDefers"
	case *ssa.ChangeInterface:
		j["op"] = "ChangeInterface"
		j["x"] = d.operand(x.X)
	case *ssa.ChangeType:
		j["op"] = "ChangeType"
		j["x"] = d.operand(x.X)
	case *ssa.Convert:
		j["op"] = "Convert"
		j["x"] = d.operand(x.X)
		j["xt"] = d.typeID(x.X.Type())
	case *ssa.MultiConvert:
		j["op"] = "Convert"
		j["x"] = d.operand(x.X)
		j["xt"] = d.typeID(x.X.Type())
	case *ssa.Extract:
		j["op"] = "Extract"
		j["x"] = d.operand(x.Tuple)
		j["index"] = x.Index
	case *ssa.Field:
		j["op"] = "Field"
		j["x"] = d.operand(x.X)
		j["field"] = x.Field
	case *ssa.FieldAddr:
		j["op"] = "FieldAddr"
		j["x"] = d.operand(x.X)
		j["field"] = x.Field
	case *ssa.Index:
		j["op"] = "Index"
		j["x"] = d.operand(x.X)
		j["index"] = d.operand(x.Index)
		j["xt"] = d.typeID(x.X.Type())
	case *ssa.IndexAddr:
		j["op"] = "IndexAddr"
		j["x"] = d.operand(x.X)
		j["index"] = d.operand(x.Index)
		j["xt"] = d.typeID(x.X.Type())
	case *ssa.If:
		j["op"] = "If"
		j["cond"] = d.operand(x.Cond)
	case *ssa.Jump:
		j["op"] = "Jump"
	case *ssa.Lookup:
		j["op"] = "Lookup"
		j["x"] = d.operand(x.X)
		j["index"] = d.operand(x.Index)
		j["commaok"] = x.CommaOk
		j["xt"] = d.typeID(x.X.Type())
	case *ssa.MakeClosure:
		j["op"] = "MakeClosure"
		j["fn"] = d.operand(x.Fn)
		j["bindings"] = d.operands(x.Bindings)
	case *ssa.MakeInterface:
		j["op"] = "MakeInterface"
		j["x"] = d.operand(x.X)
		j["xt"] = d.typeID(x.X.Type())
		d.addRuntimeType(x.X.Type())
	case *ssa.MakeMap:
		j["op"] = "MakeMap"
	case *ssa.MakeChan:
		j["op"] = "MakeChan"
		j["size"] = d.operand(x.Size)
	case *ssa.MakeSlice:
		j["op"] = "MakeSlice"
		j["len"] = d.operand(x.Len)
		j["cap"] = d.operand(x.Cap)
	case *ssa.MapUpdate:
		j["op"] = "MapUpdate"
		j["map"] = d.operand(x.Map)
		j["mt"] = d.typeID(x.Map.Type())
		j["key"] = d.operand(x.Key)
		j["value"] = d.operand(x.Value)
	case *ssa.Next:
		j["op"] = "Next"
		j["iter"] = d.operand(x.Iter)
		j["isstring"] = x.IsString
	case *ssa.Range:
		j["op"] = "Range"
		j["x"] = d.operand(x.X)
		j["xt"] = d.typeID(x.X.Type())
	case *ssa.Panic:
		j["op"] = "Panic"
		j["x"] = d.operand(x.X)
	case *ssa.Phi:
		j["op"] = "Phi"
		j["edges"] = d.operands(x.Edges)
		j["comment"] = x.Comment
	case *ssa.Return:
		j["op"] = "Return"
		j["results"] = d.operands(x.Results)
	case *ssa.Slice:
		j["op"] = "Slice"
		j["x"] = d.operand(x.X)
		j["low"] = d.operand(x.Low)
		j["high"] = d.operand(x.High)
		j["max"] = d.operand(x.Max)
		j["xt"] = d.typeID(x.X.Type())
	case *ssa.SliceToArrayPointer:
		j["op"] = "SliceToArrayPointer"
		j["x"] = d.operand(x.X)
	case *ssa.Store:
		j["op"] = "Store"
		j["addr"] = d.operand(x.Addr)
		j["val"] = d.operand(x.Val)
	case *ssa.TypeAssert:
		j["op"] = "TypeAssert"
		j["x"] = d.operand(x.X)
		j["asserted"] = d.typeID(x.AssertedType)
		j["commaok"] = x.CommaOk
		if !types.IsInterface(x.AssertedType) {
			d.addRuntimeType(x.AssertedType)
		}
	case *ssa.Send:
		j["op"] = "Send"
		j["chan"] = d.operand(x.Chan)
		j["x"] = d.operand(x.X)
	case *ssa.Select:
		j["op"] = "Select"
		j["blocking"] = x.Blocking
		var sts []J
		for _, s := range x.States {
			sts = append(sts, J{"dir": int(s.Dir), "chan": d.operand(s.Chan), "send": d.operand(s.Send)})
		}
		j["states"] = sts
	default:
		j["op"] = "Unknown"
		j["go"] = fmt.Sprintf("%T", in)
	}
	return j
}

func (d *dumper) resolveMethods() bool {
	added := false
	for _, t := range d.rtTypes {
		id := fmt.Sprint(d.typeID(t))
		ms := d.prog.MethodSets.MethodSet(t)
		if d.methods[id] == nil {
			d.methods[id] = map[string]string{}
		}
		for i := 0; i < ms.Len(); i++ {
			sel := ms.At(i)
			name := sel.Obj().Name()
			if !d.invoked[name] {
				continue
			}
			if _, ok := d.methods[id][name]; ok {
				continue
			}
			fn := d.prog.MethodValue(sel)
			if fn == nil {
				continue
			}
			d.methods[id][name] = fn.String()
			before := len(d.work)
			d.addFn(fn)
			if len(d.work) != before {
				added = true
			}
		}
	}
	return added
}

func main() {
	dir := flag.String("dir", "/repo", "module dir")
	tags := flag.String("tags", "", "build tags")
	overlayF := flag.String("overlay", "", "json file: virtual path -> real path")
	pkgsF := flag.String("pkgs", "./...", "comma separated package patterns")
	rootsF := flag.String("roots", "", "comma separated root function names (ssa String() form) or prefix*")
	skipPkgF := flag.String("skippkg", "", "comma separated package path prefixes not to descend into")
	skipFnF := flag.String("skipfn", "", "comma separated function names not to descend into")
	skipFileF := flag.String("skipfile", "zz_vrt.go", "functions declared in files with this base name are external (intrinsics)")
	inits := flag.String("inits", "", "comma separated package paths whose init to dump")
	out := flag.String("out", "/dev/stdout", "output file")
	flag.Parse()

	cfg := &packages.Config{
		Mode: packages.LoadAllSyntax,
		Dir:  *dir,
		Env:  append(os.Environ(), "GOFLAGS=-mod=mod", "GOPROXY=off", "GOSUMDB=off", "GOTOOLCHAIN=local"),
	}
	if *tags != "" {
		cfg.BuildFlags = []string{"-tags=" + *tags}
	}
	if *overlayF != "" {
		raw, err := os.ReadFile(*overlayF)
		if err != nil {
			fatal(err)
		}
		var m map[string]string
		if err := json.Unmarshal(raw, &m); err != nil {
			fatal(err)
		}
		cfg.Overlay = map[string][]byte{}
		for virt, real := range m {
			b, err := os.ReadFile(real)
			if err != nil {
				fatal(err)
			}
			cfg.Overlay[virt] = b
		}
	}
	initial, err := packages.Load(cfg, strings.Split(*pkgsF, ",")...)
	if err != nil {
		fatal(err)
	}
	nerr := 0
	packages.Visit(initial, nil, func(p *packages.Package) {
		for _, e := range p.Errors {
			fmt.Fprintln(os.Stderr, "load error:", e)
			nerr++
		}
	})
	if nerr > 0 {
		os.Exit(3)
	}
	prog, pkgs := ssautil.AllPackages(initial, ssa.InstantiateGenerics)
	prog.Build()

	d := &dumper{prog: prog, fset: prog.Fset, funcs: map[string]J{}, seen: map[*ssa.Function]bool{},
		skipFn: map[string]bool{}, invoked: map[string]bool{}, methods: map[string]map[string]string{},
		globals: map[string]J{}, external: map[string]bool{}, skipFile: *skipFileF}
	for _, s := range strings.Split(*skipPkgF, ",") {
		if s != "" {
			d.skipPkg = append(d.skipPkg, s)
		}
	}
	for _, s := range strings.Split(*skipFnF, ",") {
		if s != "" {
			d.skipFn[s] = true
		}
	}
	roots := strings.Split(*rootsF, ",")
	allFns := ssautil.AllFunctions(prog)
	byName := map[string]*ssa.Function{}
	for fn := range allFns {
		byName[fn.String()] = fn
	}
	var rootNames []string
	for _, r := range roots {
		if r == "" {
			continue
		}
		if strings.HasSuffix(r, "*") {
			pre := strings.TrimSuffix(r, "*")
			for n, fn := range byName {
				if strings.HasPrefix(n, pre) {
					d.addFn(fn)
					rootNames = append(rootNames, n)
				}
			}
		} else if fn, ok := byName[r]; ok {
			d.addFn(fn)
			rootNames = append(rootNames, r)
		} else {
			fmt.Fprintln(os.Stderr, "root not found:", r)
			os.Exit(3)
		}
	}
	initPkgs := map[string]bool{}
	for _, s := range strings.Split(*inits, ",") {
		if s != "" {
			initPkgs[s] = true
		}
	}
	_ = pkgs
	// fixpoint: dump functions, then resolve interface methods, repeat
	dumpedInit := map[string]bool{}
	for {
		for len(d.work) > 0 {
			fn := d.work[len(d.work)-1]
			d.work = d.work[:len(d.work)-1]
			d.dumpFn(fn)
			// lazily include package init of every package we touch
			if fn.Pkg != nil && !dumpedInit[fn.Pkg.Pkg.Path()] {
				dumpedInit[fn.Pkg.Pkg.Path()] = true
				if ini := fn.Pkg.Func("init"); ini != nil {
					d.addFn(ini)
				}
			}
		}
		if !d.resolveMethods() && len(d.work) == 0 {
			break
		}
	}
	// globals of all packages that have dumped functions
	for _, p := range prog.AllPackages() {
		if !dumpedInit[p.Pkg.Path()] {
			continue
		}
		for _, m := range p.Members {
			if g, ok := m.(*ssa.Global); ok {
				d.globals[g.String()] = J{"t": d.typeID(g.Type()), "pkg": p.Pkg.Path()}
			}
		}
	}
	sort.Strings(rootNames)
	ext := make([]string, 0, len(d.external))
	for n := range d.external {
		ext = append(ext, n)
	}
	sort.Strings(ext)
	res := J{"types": d.types, "funcs": d.funcs, "methods": d.methods, "globals": d.globals,
		"roots": rootNames, "external": ext}
	f, err := os.Create(*out)
	if err != nil {
		fatal(err)
	}
	enc := json.NewEncoder(f)
	if err := enc.Encode(res); err != nil {
		fatal(err)
	}
	f.Close()
}

func fatal(err error) {
	fmt.Fprintln(os.Stderr, "ssajson:", err)
	os.Exit(3)
}
