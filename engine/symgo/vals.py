"""Value representations for the go/ssa symbolic executor."""
import z3


class Unsupported(Exception):
    pass


class Ptr:
    """Pointer = heap object id + path (field / element indices, possibly symbolic)."""
    __slots__ = ("obj", "path")

    def __init__(self, obj, path=()):
        self.obj = obj
        self.path = tuple(path)

    def __repr__(self):
        return "Ptr(%s,%s)" % (self.obj, list(self.path))

    def concrete(self):
        return all(isinstance(p, int) for p in self.path)

    def key(self):
        return (self.obj, tuple(p if isinstance(p, int) else ("s", p.get_id()) for p in self.path))


class SliceV:
    """Slice or string. ptr -> location of the backing array (Bytes leaf or tuple)."""
    __slots__ = ("ptr", "off", "len", "cap", "isstr")

    def __init__(self, ptr, off, ln, cap, isstr=False):
        self.ptr = ptr
        self.off = off
        self.len = ln
        self.cap = cap
        self.isstr = isstr

    def __repr__(self):
        return "%s(%s,off=%s,len=%s,cap=%s)" % ("Str" if self.isstr else "Slice", self.ptr, self.off, self.len, self.cap)


NIL_SLICE = SliceV(None, 0, 0, 0)


class Iface:
    __slots__ = ("tid", "val")

    def __init__(self, tid, val):
        self.tid = tid
        self.val = val

    def __repr__(self):
        return "Iface(%s,%r)" % (self.tid, self.val)


class Closure:
    __slots__ = ("fn", "binds")

    def __init__(self, fn, binds=()):
        self.fn = fn
        self.binds = tuple(binds)

    def __repr__(self):
        return "Closure(%s)" % self.fn


class Builtin:
    __slots__ = ("name",)

    def __init__(self, name):
        self.name = name


class MapRef:
    __slots__ = ("obj",)

    def __init__(self, obj):
        self.obj = obj


class ChanRef:
    __slots__ = ("obj",)

    def __init__(self, obj):
        self.obj = obj


class Opaque:
    """A value the engine does not model (e.g. sync.Mutex internals)."""
    __slots__ = ("what",)

    def __init__(self, what):
        self.what = what

    def __repr__(self):
        return "Opaque(%s)" % self.what


class StructV(tuple):
    """struct / array value (persistent)."""
    pass


# ---------------------------------------------------------------- byte arrays

class Arr:
    """Immutable byte-array expression."""
    pass


class ABase(Arr):
    def __init__(self, name, fn):
        self.name = name
        self.fn = fn  # z3 function Int->Int (or BV64->BV8)


class AZero(Arr):
    pass


class AConst(Arr):
    def __init__(self, data):
        self.data = bytes(data)


class AStore(Arr):
    def __init__(self, a, i, v):
        self.a = a
        self.i = i
        self.v = v


class ACopy(Arr):
    """result[j] = src[soff + j - doff] if doff <= j < doff+n else dst[j]"""

    def __init__(self, dst, doff, src, soff, n):
        self.dst = dst
        self.doff = doff
        self.src = src
        self.soff = soff
        self.n = n


class Bytes:
    """A byte array leaf in memory: content expression + total length."""
    __slots__ = ("arr", "n")

    def __init__(self, arr, n):
        self.arr = arr
        self.n = n

    def __repr__(self):
        return "Bytes(n=%s)" % (self.n,)


def is_sym(x):
    return isinstance(x, z3.ExprRef)
