"""Native replay of engine-B counterexample schedules: the real code (scratch copy instrumented with a yield before
every atomic operation) runs under a cooperative scheduler that follows the model's segment list."""
import itertools
import json
import os
import re
import subprocess

from . import run as R


def segments_from_model(model_summary, thread_names):
    segs = []
    for s in model_summary["schedule"]:
        t = thread_names.index(s["thread"])
        n = s.get("atomic_steps", s["effective_steps"])
        if n > 0:
            segs.append({"thread": t, "steps": n})
    return segs


def instrument_queue(src, out, summary=False):
    """scratch copy of lock_free_queue.go with a scheduling point in front of every atomic operation. summary=True (the
    configurations whose schedule formula uses the C13-justified atomic queue summary): one scheduling point at the
    entry of Enqueue/Dequeue (the abstract link/unlink step) and one at the length update, none inside the operation,
    so that the native run has exactly the step structure of the model."""
    s = open(src).read()
    n = 0
    if summary:
        pairs = (("func (q *lockFreeQueue) Enqueue(task *Task) {", "func (q *lockFreeQueue) Enqueue(task *Task) {\n\tvrt.Sched()"),
                 ("func (q *lockFreeQueue) Dequeue() *Task {", "func (q *lockFreeQueue) Dequeue() *Task {\n\tvrt.Sched()"),
                 ("atomic.AddInt32(", "vAtomicAddInt32("), ("atomic.LoadInt32(", "vAtomicLoadInt32("))
    else:
        pairs = (("func load(p *unsafe.Pointer) (n *node) {", "func load(p *unsafe.Pointer) (n *node) {\n\tvrt.Sched()"),
                 ("func cas(p *unsafe.Pointer, old, new *node) bool { //nolint:revive", "func cas(p *unsafe.Pointer, old, new *node) bool { //nolint:revive\n\tvrt.Sched()"),
                 ("atomic.AddInt32(", "vAtomicAddInt32("), ("atomic.LoadInt32(", "vAtomicLoadInt32("))
    for a, b in pairs:
        n += s.count(a)
        s = s.replace(a, b)
    if n < 3:
        raise RuntimeError("lock_free_queue.go: instrumentation anchors not found")
    s = re.sub(r"(?m)^(package \w+)$", r'\1\n\nimport "github.com/panjf2000/gnet/v2/internal/vrt"', s, count=1)
    open(out, "w").write(s)


QUEUE_NATIVE = '''package queue

import (
	"sync/atomic"

	"github.com/panjf2000/gnet/v2/internal/vrt"
)

func vAtomicAddInt32(p *int32, d int32) int32 { vrt.Sched(); return atomic.AddInt32(p, d) }
func vAtomicLoadInt32(p *int32) int32         { vrt.Sched(); return atomic.LoadInt32(p) }

func init() {
	vOpBeginHook = vrt.OpBegin
	vOpEndHook = vrt.OpEnd
}
'''

QUEUE_TEST = '''package queue

import (
	"encoding/json"
	"fmt"
	"os"
	"testing"
	"time"

	"github.com/panjf2000/gnet/v2/internal/vrt"
)

func TestVReplayConc(t *testing.T) {
	raw, err := os.ReadFile(os.Getenv("VREPLAY_TAPE"))
	if err != nil {
		fmt.Println("VREPLAY-RESULT: {\\"error\\": \\"no tape\\"}")
		return
	}
	var in struct {
		Threads []string  `json:"thread_fns"`
		Segs    []vrt.Seg `json:"segments"`
	}
	_ = json.Unmarshal(raw, &in)
	VT_Setup()
	var fns []func()
	for _, n := range in.Threads {
		fns = append(fns, vThreadTable[n])
	}
	done := make(chan struct{})
	go func() { vrt.RunThreads(fns, in.Segs); close(done) }()
	select {
	case <-done:
	case <-time.After(20 * time.Second):
		fmt.Println("VREPLAY-RESULT: {\\"error\\": \\"timeout\\"}")
		return
	}
	VT_Quiescent()
	type opres struct {
		Op, Result, Begin, End int
	}
	var ops []opres
	for op := 0; op < len(vOpDone); op++ {
		if !vOpDone[op] {
			continue
		}
		r := 0
		for i, tk := range vTasks {
			if tk != nil && tk == vOpResult[op] {
				r = i
			}
		}
		if vOpResult[op] != nil && r == 0 {
			r = -1
		}
		ops = append(ops, opres{op, r, vrt.OpBeginSeq[op], vrt.OpEndSeq[op]})
	}
	out, _ := json.Marshal(map[string]interface{}{"ops": ops, "len": vObsLen, "empty": vObsEmpty})
	fmt.Println("VREPLAY-RESULT: " + string(out))
}
'''


def replay_queue(prop, unit, cfgc, violation, tape_path):
    """returns (confirmed: bool, detail str)"""
    wd = R.unit_workdir(prop, unit)
    ov, _ = R.build_overlay(prop, unit, native=True)
    pkgdir = os.path.join(R.REPO, unit["pkgdir"])
    inst = os.path.join(wd, "rw_lock_free_queue_instrumented.go")
    instrument_queue(os.path.join(pkgdir, "lock_free_queue.go"), inst)
    ov[os.path.join(pkgdir, "lock_free_queue.go")] = inst
    nat = os.path.join(wd, "zz_vconc_native.go")
    open(nat, "w").write(QUEUE_NATIVE)
    ov[os.path.join(pkgdir, "zz_vconc_native.go")] = nat
    tst = os.path.join(wd, "zz_vconc_test.go")
    open(tst, "w").write(QUEUE_TEST)
    ov[os.path.join(pkgdir, "zz_vconc_test.go")] = tst
    tab = os.path.join(wd, "zz_vthreads.go")
    fns = sorted(set(cfgc["threads"]))
    open(tab, "w").write("package queue\n\nvar vThreadTable = map[string]func(){\n" + "".join('\t"%s": %s,\n' % (f, f) for f in fns) + "}\n")
    ov[os.path.join(pkgdir, "zz_vthreads.go")] = tab
    # the generic replay test/table of engine A are not needed here
    for k in list(ov):
        if k.endswith("zz_vreplay_test.go") or k.endswith("zz_vtable.go"):
            del ov[k]
    ovf = os.path.join(wd, "overlay_conc_native.json")
    json.dump({"Replace": ov}, open(ovf, "w"))
    env = dict(R.GOENV, VREPLAY_TAPE=tape_path)
    r = subprocess.run(["go", "test", "-v", "-vet=off", "-count=1", "-overlay", ovf, "-run", "^TestVReplayConc$", "-timeout", "120s", "."],
                       cwd=pkgdir, stdout=subprocess.PIPE, stderr=subprocess.STDOUT, text=True, env=env)
    m = re.search(r"VREPLAY-RESULT: (.*)", r.stdout)
    if not m:
        return False, "replay did not run: " + r.stdout[-600:]
    obs = json.loads(m.group(1))
    if "error" in obs:
        return False, "replay " + obs["error"]
    return judge_queue(cfgc, violation["label"], obs)


def judge_queue(cfgc, label, obs):
    """evaluate the violated obligation on the natively observed history"""
    opinfo = cfgc["_ops"]     # op id -> (thread index, order in thread, kind, arg)
    ops = {o["Op"]: o for o in obs["ops"] or []}
    if set(ops) != set(opinfo):
        return False, "native run did not complete all operations: %s" % sorted(ops)
    enq = sum(1 for k in opinfo.values() if k[2] == 0)
    deq_ok = sum(1 for i, k in opinfo.items() if k[2] == 1 and ops[i]["Result"] != 0)
    if label.startswith("C13.length"):
        bad = obs["len"] != enq - deq_ok
        return bad, "native Length()=%s expected %s" % (obs["len"], enq - deq_ok)
    if label.startswith("C13.isempty"):
        bad = obs["empty"] != (enq - deq_ok == 0)
        return bad, "native IsEmpty()=%s with %d tasks left" % (obs["empty"], enq - deq_ok)
    ids = sorted(opinfo)
    for perm in itertools.permutations(ids):
        pos = {k: i for i, k in enumerate(perm)}
        ok = True
        for a in ids:
            for b in ids:
                if a == b:
                    continue
                ta, tb = opinfo[a], opinfo[b]
                before = (ta[0] == tb[0] and ta[1] < tb[1]) or (ta[0] != tb[0] and ops[a]["End"] < ops[b]["Begin"])
                if before and pos[a] > pos[b]:
                    ok = False
        if not ok:
            continue
        fifo = []
        for k in perm:
            th, order, kind, arg = opinfo[k]
            if kind == 0:
                fifo.append(arg)
            else:
                exp = fifo.pop(0) if fifo else 0
                if ops[k]["Result"] != exp:
                    ok = False
                    break
        if ok:
            return False, "native history is linearizable: %s" % obs
    return True, "native history has no linearization: %s" % obs


# --------------------------------------------------------------------------------------------------- C03 (netpoll)
QUEUE_DEP_NATIVE = '''package queue

import (
	"sync/atomic"

	"github.com/panjf2000/gnet/v2/internal/vrt"
)

func vAtomicAddInt32(p *int32, d int32) int32 { vrt.Sched(); return atomic.AddInt32(p, d) }
func vAtomicLoadInt32(p *int32) int32         { vrt.Sched(); return atomic.LoadInt32(p) }
'''

NETPOLL_NATIVE = '''package netpoll

import (
	"sync/atomic"

	"github.com/panjf2000/gnet/v2/internal/vrt"
)

func vCasInt32(p *int32, o, n int32) bool { vrt.Sched(); return atomic.CompareAndSwapInt32(p, o, n) }
func vStoreInt32(p *int32, v int32)       { vrt.Sched(); atomic.StoreInt32(p, v) }

func init() {
	vSchedHook = vrt.Sched
	vBlockHook = vrt.Block
}
'''

NETPOLL_TEST = '''package netpoll

import (
	"encoding/json"
	"fmt"
	"os"
	"testing"
	"time"

	"github.com/panjf2000/gnet/v2/internal/vrt"
)

func TestVReplayConc(t *testing.T) {
	raw, err := os.ReadFile(os.Getenv("VREPLAY_TAPE"))
	if err != nil {
		fmt.Println("VREPLAY-RESULT: {\\"error\\": \\"no tape\\"}")
		return
	}
	var in struct {
		Threads []string  `json:"thread_fns"`
		Segs    []vrt.Seg `json:"segments"`
		Setup   string    `json:"setup"`
	}
	_ = json.Unmarshal(raw, &in)
	vThreadTable[in.Setup]()
	var fns []func()
	for _, n := range in.Threads {
		fns = append(fns, vThreadTable[n])
	}
	done := make(chan struct{})
	go func() { vrt.RunThreads(fns, in.Segs); close(done) }()
	select {
	case <-done:
	case <-time.After(20 * time.Second):
		fmt.Println("VREPLAY-RESULT: {\\"error\\": \\"timeout\\"}")
		return
	}
	out, _ := json.Marshal(map[string]interface{}{"parked": vrt.Parked, "edge": vEdge, "executed": vExecuted, "accepted": vAccepted, "stamp": vStamp})
	fmt.Println("VREPLAY-RESULT: " + string(out))
}
'''


def instrument_poller(src, out, base_rewrite):
    base_rewrite(src, out)
    s = open(out).read()
    n = s.count("atomic.CompareAndSwapInt32(") + s.count("atomic.StoreInt32(")
    s = s.replace("atomic.CompareAndSwapInt32(", "vCasInt32(").replace("atomic.StoreInt32(", "vStoreInt32(")
    if n < 2:
        raise RuntimeError("poller: instrumentation anchors not found")
    if "atomic." not in s.replace('"sync/atomic"', ""):
        s += "\nvar _ = atomic.LoadInt32\n"
    open(out, "w").write(s)


def replay_netpoll(prop, unit, cfgc, violation, tape_path):
    wd = R.unit_workdir(prop, unit)
    ov, _ = R.build_overlay(prop, unit, native=True)
    pkgdir = os.path.join(R.REPO, unit["pkgdir"])
    qdir = os.path.join(R.REPO, "pkg/queue")
    inst = os.path.join(wd, "rw_lock_free_queue_instrumented.go")
    instrument_queue(os.path.join(qdir, "lock_free_queue.go"), inst, summary=bool(cfgc.get("queue_summary")))
    ov[os.path.join(qdir, "lock_free_queue.go")] = inst
    qn = os.path.join(wd, "zz_vconc_queue_native.go")
    open(qn, "w").write(QUEUE_DEP_NATIVE)
    ov[os.path.join(qdir, "zz_vconc_native.go")] = qn
    pfile = os.path.join(pkgdir, "poller_epoll_default.go")
    pinst = os.path.join(wd, "rw_poller_instrumented.go")
    instrument_poller(pfile, pinst, unit["rewrites"]["pkg/netpoll/poller_epoll_default.go"])
    ov[pfile] = pinst
    nat = os.path.join(wd, "zz_vconc_native.go")
    open(nat, "w").write(NETPOLL_NATIVE)
    ov[os.path.join(pkgdir, "zz_vconc_native.go")] = nat
    tst = os.path.join(wd, "zz_vconc_test.go")
    open(tst, "w").write(NETPOLL_TEST)
    ov[os.path.join(pkgdir, "zz_vconc_test.go")] = tst
    setup = unit.get("setup", "VT_Setup")
    fns = sorted(set(cfgc["threads"]) | {setup})
    tab = os.path.join(wd, "zz_vthreads.go")
    open(tab, "w").write("package netpoll\n\nvar vThreadTable = map[string]func(){\n" + "".join('\t"%s": %s,\n' % (f, f) for f in fns) + "}\n")
    ov[os.path.join(pkgdir, "zz_vthreads.go")] = tab
    for k in list(ov):
        if k.endswith("zz_vreplay_test.go") or k.endswith("zz_vtable.go"):
            del ov[k]
    t = json.load(open(tape_path))
    t["setup"] = setup
    json.dump(t, open(tape_path, "w"), indent=1, default=str)
    ovf = os.path.join(wd, "overlay_conc_native.json")
    json.dump({"Replace": ov}, open(ovf, "w"))
    env = dict(R.GOENV, VREPLAY_TAPE=tape_path)
    r = subprocess.run(["go", "test", "-v", "-vet=off", "-count=1", "-overlay", ovf, "-run", "^TestVReplayConc$", "-timeout", "120s", "."],
                       cwd=pkgdir, stdout=subprocess.PIPE, stderr=subprocess.STDOUT, text=True, env=env)
    m = re.search(r"VREPLAY-RESULT: (.*)", r.stdout)
    if not m:
        return False, "replay did not run: " + r.stdout[-800:]
    obs = json.loads(m.group(1))
    if "error" in obs:
        return False, "replay " + obs["error"]
    label = violation["label"]
    n = cfgc.get("tasks", 2)
    ex, ac, stp = obs["executed"][:n], obs["accepted"][:n], obs["stamp"][:n]
    if label.startswith("C03.no_lost_wakeup"):
        bad = obs["parked"] and obs["edge"] == 0 and any(a == 1 and e == 0 for a, e in zip(ac, ex))
        return bad, "native run: parked=%s edge=%s accepted=%s executed=%s" % (obs["parked"], obs["edge"], ac, ex)
    if label.startswith("C03.at_most_once"):
        return any(e > 1 for e in ex), "native run: executed=%s" % ex
    if label.startswith("C03.high_priority_issue_order"):
        mm = re.search(r"\((\d+) before (\d+)\)", label)
        a, b = int(mm.group(1)), int(mm.group(2))
        return bool(stp[a] and stp[b] and stp[a] > stp[b]), "native run: stamps=%s" % stp
    return False, "no native judge for " + label
