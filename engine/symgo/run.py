"""CLI: python -m symgo.run check <PROP> <tier>  |  replay <tape.json>"""
import json
import multiprocessing as mp
import os
import re
import shutil
import subprocess
import sys
import time
import traceback

VERIF = os.environ.get("VERIF_DIR", "/verif")
REPO = os.environ.get("VERIF_REPO", "/repo")
_ALT = "" if os.path.realpath(REPO) == "/repo" else "alt_" + re.sub(r"\W+", "_", os.path.realpath(REPO))
WORK = os.path.join(VERIF, ".work", _ALT) if _ALT else os.path.join(VERIF, ".work")
# evidence describes /repo itself; runs against a scratch copy (VERIF_REPO=...) keep their output apart
EVID = os.path.join(VERIF, "evidence") if not _ALT else os.path.join(WORK, "evidence")
MODPATH = "github.com/panjf2000/gnet/v2"
GOENV = dict(os.environ, GOFLAGS="-mod=mod", GOPROXY="off", GOSUMDB="off", GOTOOLCHAIN="local")

DEFAULT_SKIP_PKGS = ["runtime", "sync", "syscall", "os", "fmt", "reflect", "time", "unsafe", "internal", "log",
                     "go.uber.org", "gopkg.in", "unicode", "sort", "strconv", "context", "math/rand", "bufio",
                     "github.com/panjf2000/ants", "golang.org/x/sync", "github.com/valyala", "encoding/json", "bytes",
                     "strings", "path", "net/url", "io/fs", "io/ioutil", "os/signal", "hash", "hash/crc32", "errors/internal"]

_PROG = None
_UNIT = None
_SLOTS = None


def sh(cmd, **kw):
    return subprocess.run(cmd, stdout=subprocess.PIPE, stderr=subprocess.STDOUT, text=True, env=GOENV, **kw)


def pkgname_of(path):
    for line in open(path):
        m = re.match(r"\s*package\s+(\w+)", line)
        if m:
            return m.group(1)
    raise RuntimeError("no package clause in " + path)


def parse_harnesses(path):
    """returns {name: directives} for every func VH_*() in the file"""
    out = {}
    pending = {}
    for line in open(path):
        m = re.match(r"\s*//\s*verif:\s*(.*)", line)
        if m:
            for kv in m.group(1).split():
                if "=" in kv:
                    k, v = kv.split("=", 1)
                    pending[k] = v
            continue
        m = re.match(r"func (VH_\w+)\(\)", line)
        if m:
            out[m.group(1)] = pending
            pending = {}
        elif line.strip() and not line.strip().startswith("//"):
            pending = {}
    return out


def unit_workdir(prop, unit):
    d = os.path.join(WORK, prop, unit["name"])
    os.makedirs(d, exist_ok=True)
    return d


def build_overlay(prop, unit, native):
    """returns (overlay map virtual->real, harness table).
    unit["files"]: harness files of the main package (unit["pkgdir"]);
    unit["extra"]: [(pkgdir, file), ...] helper files injected into other packages (exported constructors etc.)."""
    wd = unit_workdir(prop, unit)
    ov = {}
    harnesses = {}
    main_dir = os.path.join(REPO, unit["pkgdir"])
    per_pkg = {}   # pkgdir -> package name
    counter = 0
    for pkgdir, hf in [(unit["pkgdir"], f) for f in unit["files"]] + list(unit.get("extra", [])):
        real = os.path.join(VERIF, hf)
        per_pkg[pkgdir] = pkgname_of(real)
        ov[os.path.join(REPO, pkgdir, "zz_vh_%d.go" % counter)] = real
        counter += 1
        if pkgdir == unit["pkgdir"]:
            harnesses.update(parse_harnesses(real))
    for pkgdir, pk in per_pkg.items():
        tmpl = "vrt_wrap.go.txt" if native else "vrt_sym.go.txt"
        src = open(os.path.join(VERIF, "harness/vrt", tmpl)).read().replace("package PKG", "package " + pk)
        vrt = os.path.join(wd, "zz_vrt_%s_%s.go" % (pk, "native" if native else "sym"))
        open(vrt, "w").write(src)
        ov[os.path.join(REPO, pkgdir, "zz_vrt.go")] = vrt
    pk = per_pkg[unit["pkgdir"]]
    # extra overlays: replacement of repo files (e.g. scaled constants), generated per run
    for virt, gen in unit.get("rewrites", {}).items():
        outp = os.path.join(wd, "rw_" + os.path.basename(virt))
        gen(os.path.join(REPO, virt), outp)
        ov[os.path.join(REPO, virt)] = outp
    import glob as _glob
    for d, gen in unit.get("rewrite_globs", []):
        for f in sorted(_glob.glob(os.path.join(REPO, d, "*.go"))):
            rel = os.path.normpath(os.path.relpath(f, REPO))
            base = os.path.basename(f)
            if base.endswith("_test.go") or base.startswith("zz_") or rel in unit.get("rewrites", {}) or os.path.normpath(f) in {os.path.normpath(k) for k in ov}:
                continue
            outp = os.path.join(wd, "rwg_" + base)
            if gen(f, outp) is not False:
                ov[f] = outp
    if native:
        ov[os.path.join(REPO, "internal/vrt/vrt.go")] = os.path.join(VERIF, "harness/vrt/vrt_pkg.go.txt")
        hooked = hook_byteslice(os.path.join(REPO, "pkg/pool/byteslice/byteslice.go"), os.path.join(wd, "rw_byteslice_hooked.go"))
        if hooked and os.path.join(REPO, "pkg/pool/byteslice/byteslice.go") not in ov:
            ov[os.path.join(REPO, "pkg/pool/byteslice/byteslice.go")] = hooked
        tab = os.path.join(wd, "zz_vtable.go")
        with open(tab, "w") as f:
            f.write("package %s\n\nvar vHarnessTable = map[string]func(){\n" % pk)
            for h in sorted(harnesses):
                f.write("\t\"%s\": %s,\n" % (h, h))
            f.write("}\n")
        ov[os.path.join(main_dir, "zz_vtable.go")] = tab
        tst = os.path.join(wd, "zz_vreplay_test.go")
        open(tst, "w").write(open(os.path.join(VERIF, "harness/vrt/vreplay_test.go.txt")).read().replace("package PKG", "package " + pk))
        ov[os.path.join(main_dir, "zz_vreplay_test.go")] = tst
    return {os.path.normpath(k): v for k, v in ov.items()}, harnesses


def hook_byteslice(src, out):
    """replay-time instrumentation (scratch copy, regenerated from the current tree): Pool.Get/Put report to the
    ownership tracker in internal/vrt so that the ghost 'released' oracle can be confirmed natively"""
    try:
        s = open(src).read()
    except OSError:
        return None
    if "func (p *Pool) Get(size int) []byte {" not in s or "func (p *Pool) Put(buf []byte) {" not in s:
        return None
    s = s.replace("func (p *Pool) Get(size int) []byte {", "func (p *Pool) Get(size int) []byte {\n\tb := p.vOrigGet(size)\n\tvrt.NoteGet(b)\n\treturn b\n}\n\nfunc (p *Pool) vOrigGet(size int) []byte {", 1)
    s = s.replace("func (p *Pool) Put(buf []byte) {", "func (p *Pool) Put(buf []byte) {\n\tvrt.NotePut(buf)", 1)
    s = s.replace("import (", "import (\n\t\"github.com/panjf2000/gnet/v2/internal/vrt\"", 1)
    open(out, "w").write(s)
    return out


def dump_unit(prop, unit, roots=None):
    wd = unit_workdir(prop, unit)
    ov, harnesses = build_overlay(prop, unit, native=False)
    if roots is not None:
        harnesses = {r: {} for r in roots}
    ovf = os.path.join(wd, "overlay_sym.json")
    json.dump(ov, open(ovf, "w"))
    pkgpath = MODPATH + ("/" + unit["pkgdir"] if unit["pkgdir"] not in (".", "") else "")
    roots = ",".join("%s.%s" % (pkgpath, h) for h in sorted(harnesses))
    out = os.path.join(wd, "ssa.json")
    skip = list(DEFAULT_SKIP_PKGS) + unit.get("skip_pkgs", [])
    for k in unit.get("unskip_pkgs", []):
        if k in skip:
            skip.remove(k)
    cmd = [os.path.join(VERIF, "bin/ssajson"), "-dir", REPO, "-pkgs", "./" + unit["pkgdir"], "-roots", roots,
           "-skippkg", ",".join(skip), "-skipfn", ",".join(unit.get("skip_fns", [])), "-overlay", ovf, "-out", out]
    if unit.get("tags"):
        cmd += ["-tags", unit["tags"]]
    t0 = time.time()
    r = sh(cmd)
    if r.returncode != 0:
        raise RuntimeError("ssajson failed:\n" + r.stdout)
    return out, harnesses, pkgpath, time.time() - t0


def run_one(hname):
    """worker: run one harness; returns result dict"""
    if _SLOTS is not None:
        with _SLOTS.get_lock():
            _SLOTS.value += 1
    try:
        return _run_one(hname)
    finally:
        if _SLOTS is not None:
            with _SLOTS.get_lock():
                _SLOTS.value -= 1


def _run_one(hname):
    from .engine import Prog, Executor, State, Unsupported
    unit = _UNIT
    t0 = time.time()
    res = {"harness": hname, "violations": [], "inconclusive": [], "ok": False}
    try:
        d = unit["_harnesses"][hname]
        mode = d.get("mode", unit.get("mode", "int"))
        unwind = int(d.get("unwind", unit.get("unwind", 8)))
        tier = unit["_tier"]
        cfg = dict(unit.get("cfg", {}))
        cfg.update(unit.get("cfg_" + tier, {}))
        maxlen = int(d.get("maxlen", cfg.get("maxlen", 1 << 31)))
        cfg.setdefault("tmpdir", os.path.join(WORK, "tmp"))
        cfg.setdefault("opaque_calls", unit.get("opaque_calls", []))
        if tier == "thorough":
            cfg.setdefault("diff_every", int(os.environ.get("VERIF_DIFF_EVERY", "40")))
            cfg.setdefault("witness_paths", int(os.environ.get("VERIF_WITNESS_PATHS", "3")))
        os.makedirs(cfg["tmpdir"], exist_ok=True)
        ex = Executor(_PROG, mode=mode, unwind=unwind, maxlen=maxlen, cfg=cfg,
                      timeout_ms=int(cfg.get("solver_timeout_ms", 120000)))
        if unit.get("contracts"):
            from .stubs import install_contracts
            install_contracts(ex, unit["contracts"])
        for fname, val in unit.get("stub_values", {}).items():
            ex.stubs[fname] = (lambda v: (lambda ex_, st_, args_, ins_: v))(val)
        if "stubs_module" in unit:
            import importlib
            importlib.import_module(unit["stubs_module"]).install(ex)
        if _SLOTS is not None:
            ex.slots = _SLOTS
            ex.max_procs = int(os.environ.get("VERIF_JOBS", "16"))
        st = State()
        st = ex.run_inits(st, unit.get("init_pkgs", [unit["_pkgpath"]]))
        st.pc = []
        st.tape = []
        st.events = []
        st.nbranch = 0
        s0 = ex.start(unit["_pkgpath"] + "." + hname, st)
        ex.explore(s0)
        s = ex.stats
        res.update({
            "mode": mode, "unwind": unwind, "maxlen": maxlen,
            "paths": s.paths_done, "nontrivial_paths": s.nontrivial_paths, "queries": s.queries, "solver_time": round(s.solver_time, 3),
            "asserts": s.asserts, "reached": s.reached, "funcs": sorted(s.funcs), "stubs": sorted(s.stubs),
            "unknown": s.unknown, "max_unwind": s.max_unwind, "samples": s.samples,
            "merged_ifs": s.merged_ifs, "merged_calls": s.merged_calls, "procs": s.procs, "diff": s.diff, "witnesses": s.witnesses,
            "violations": [v.asdict() for v in ex.violations],
            "inconclusive": sorted(set(ex.inconclusive)),
        })
        # vacuity: every harness must reach at least one vReach
        if not s.reached and not ex.violations:
            res["inconclusive"].append("vacuous: no vReach reached")
        res["ok"] = True
    except Exception as e:
        res["inconclusive"].append("engine error: %s: %s" % (type(e).__name__, e))
        res["trace"] = traceback.format_exc()
    res["wall"] = round(time.time() - t0, 2)
    return res


def replay(prop, unit, hname, tape, idx, maxlen, cfg):
    """native replay of one tape; returns (verdict line, tape path)"""
    rd = os.path.join(EVID, "replay")
    os.makedirs(rd, exist_ok=True)
    tp = os.path.join(rd, "%s-%s-%d.json" % (prop, hname, idx))
    json.dump({"property": prop, "unit": unit["name"], "harness": hname, "maxlen": str(maxlen), "cfg": cfg.get("vcfg", {}), "tape": tape}, open(tp, "w"), indent=1)
    return run_replay(prop, unit, hname, tp), tp


def run_replay(prop, unit, hname, tp):
    wd = unit_workdir(prop, unit)
    ov, _ = build_overlay(prop, unit, native=True)
    ovf = os.path.join(wd, "overlay_native.json")
    json.dump({"Replace": ov}, open(ovf, "w"))
    env = dict(GOENV, VREPLAY_HARNESS=hname, VREPLAY_TAPE=tp)
    cmd = ["go", "test", "-v", "-vet=off", "-count=1", "-overlay", ovf, "-run", "^TestVReplay$", "-timeout", "120s"]
    if unit.get("tags"):
        cmd += ["-tags", unit["tags"]]
    cmd += ["."]
    r = subprocess.run(cmd, cwd=os.path.join(REPO, unit["pkgdir"]), stdout=subprocess.PIPE, stderr=subprocess.STDOUT, text=True, env=env)
    m = re.search(r"VREPLAY-RESULT: (.*)", r.stdout)
    if not m:
        return "ERROR " + r.stdout[-2000:]
    return m.group(1).strip()


def run_replay_batch(prop, unit, entries):
    wd = unit_workdir(prop, unit)
    ov, _ = build_overlay(prop, unit, native=True)
    ovf = os.path.join(wd, "overlay_native.json")
    json.dump({"Replace": ov}, open(ovf, "w"))
    lst = os.path.join(wd, "witness_list.txt")
    open(lst, "w").write("".join("%s\t%s\n" % e for e in entries))
    env = dict(GOENV, VREPLAY_LIST=lst)
    cmd = ["go", "test", "-v", "-vet=off", "-count=1", "-overlay", ovf, "-run", "^TestVReplay$", "-timeout", "300s"]
    if unit.get("tags"):
        cmd += ["-tags", unit["tags"]]
    cmd += ["."]
    r = subprocess.run(cmd, cwd=os.path.join(REPO, unit["pkgdir"]), stdout=subprocess.PIPE, stderr=subprocess.STDOUT, text=True, env=env)
    out = []
    for m in re.finditer(r"VREPLAY-BATCH: ([^\t]*)\t([^\t]*)\t(.*)", r.stdout):
        out.append((m.group(1), m.group(2), m.group(3).strip()))
    if not out:
        out = [(h, tp, "ERROR " + r.stdout[-300:]) for h, tp in entries]
    return out


def load_known():
    p = os.path.join(VERIF, "known_findings.json")
    if not os.path.exists(p):
        return []
    return json.load(open(p))


def check(prop, tier, only=None):
    global _PROG, _UNIT, _SLOTS
    _SLOTS = mp.get_context("fork").Value("i", 0)
    sys.path.insert(0, VERIF)
    import props
    from .engine import Prog
    spec = props.PROPS[prop]
    t_start = time.time()
    if spec.get("conc"):
        import glob
        for f in glob.glob(os.path.join(EVID, "replay", prop + "-*.json")):
            os.unlink(f)
        from .conc_run import check_conc
        return check_conc(prop, tier, spec, only)
    import glob
    for f in glob.glob(os.path.join(EVID, "replay", prop + "-*.json")):
        os.unlink(f)
    seed = int(os.environ.get("VERIF_SEED", "0") or 0)
    known = [k for k in load_known() if k.get("property") == prop and k.get("status") == "open"]
    all_results = []
    unit_meta = []
    nworkers = int(os.environ.get("VERIF_JOBS", "16"))
    build_failures = []
    for unit in spec["units"]:
        if tier == "quick" and unit.get("tier") == "thorough":
            continue
        try:
            out, harnesses, pkgpath, dt = dump_unit(prop, unit)
        except RuntimeError as e:
            # the harness unit does not build against this tree (a type or an anchor it relies on changed): that is
            # "no verdict" for this unit, never a pass; the other units still run
            msg = [l for l in str(e).splitlines() if l.strip()]
            build_failures.append("unit %s: harness does not build against this tree, no verdict (%s)" % (unit["name"], " / ".join(msg[:3])[:300]))
            continue
        unit["_harnesses"] = harnesses
        unit["_pkgpath"] = pkgpath
        unit["_tier"] = tier
        names = [h for h, d in sorted(harnesses.items()) if not (tier == "quick" and d.get("tier") == "thorough")]
        if unit.get("only"):
            names = [h for h in names if re.search(unit["only"], h)]
        if unit.get("skip"):
            names = [h for h in names if not re.search(unit["skip"], h)]
        if only:
            names = [h for h in names if re.search(only, h)]
        if not names:
            continue
        _PROG = Prog(json.load(open(out)))
        _UNIT = unit
        unit_meta.append({"unit": unit["name"], "pkg": pkgpath, "tags": unit.get("tags", ""), "ssa_funcs": len(_PROG.funcs), "dump_s": round(dt, 2), "harnesses": names})
        if nworkers > 1 and len(names) > 1:
            ctx = mp.get_context("fork")
            from .engine import _die_with_parent
            with ctx.Pool(min(nworkers, len(names)), initializer=_die_with_parent) as pool:
                results = []
                for r in pool.imap_unordered(run_one, names, chunksize=1):
                    results.append(r)
                    if os.environ.get("VERIF_VERBOSE"):
                        print("  [%6.1fs] %s paths=%s queries=%s viol=%d inconcl=%d" % (time.time() - t_start, r["harness"], r.get("paths"), r.get("queries"), len(r["violations"]), len(r["inconclusive"])), file=sys.stderr, flush=True)
                results.sort(key=lambda r: r["harness"])
        else:
            results = [run_one(n) for n in names]
        for r in results:
            r["unit"] = unit["name"]
        all_results.append((unit, results))

    # ---- triage: replay counterexamples
    violations_out = []
    known_printed = []
    spurious = []
    inconclusive = list(build_failures)
    nreplayed = 0
    for unit, results in all_results:
        for r in results:
            for msg in r["inconclusive"]:
                inconclusive.append("%s: %s" % (r["harness"], msg))
            seen_labels = {}
            for i, v in enumerate(r["violations"]):
                key = (v["kind"], v["label"])
                seen_labels[key] = seen_labels.get(key, 0) + 1
                if seen_labels[key] > 2:
                    continue
                kf = None
                for k in known:
                    if k.get("harness") == r["harness"] and k.get("label") == v["label"]:
                        kf = k
                if v["tape"] is None:
                    inconclusive.append("%s: no model for counterexample %s" % (r["harness"], v["label"]))
                    continue
                cfg = dict(unit.get("cfg", {}))
                cfg.update(unit.get("cfg_" + tier, {}))
                verdict, tp = replay(prop, unit, r["harness"], v["tape"], i, r.get("maxlen", 1 << 31), cfg)
                nreplayed += 1
                v["replay"] = verdict
                v["tape_path"] = tp
                confirmed = (v["kind"] == "assert" and verdict == "ASSERT-FAIL " + v["label"]) or \
                            (v["kind"] == "panic" and verdict.startswith("PANIC"))
                if v["kind"] == "panic" and v["label"].startswith("unsafe.") and (verdict.startswith("ASSERT-FAIL") or verdict.startswith("PANIC")):
                    # forming an out-of-allocation slice is undefined behaviour, not a Go panic: the native run cannot
                    # panic at that point; it is confirmed by the failure it causes downstream in the same replay
                    confirmed = True
                if confirmed:
                    if kf:
                        known_printed.append((kf, v, r["harness"]))
                    else:
                        violations_out.append((r["harness"], v, tp))
                else:
                    spurious.append((r["harness"], v, verdict))
    # ---- translator validation (thorough): witness tapes of passing paths must replay natively with verdict OK
    tv = {"witness_tapes_replayed": 0, "agreed": 0, "disagreed": []}
    for unit, results in all_results:
        entries = []
        for r in results:
            for wi, tape in enumerate(r.get("witnesses", [])[:3]):
                rd = os.path.join(EVID, "replay")
                os.makedirs(rd, exist_ok=True)
                cfg = dict(unit.get("cfg", {}))
                cfg.update(unit.get("cfg_" + tier, {}))
                tp = os.path.join(WORK, "tmp", "witness-%s-%s-%d.json" % (prop, r["harness"], wi))
                os.makedirs(os.path.dirname(tp), exist_ok=True)
                json.dump({"property": prop, "unit": unit["name"], "harness": r["harness"], "maxlen": str(r.get("maxlen", 1 << 31)), "cfg": cfg.get("vcfg", {}), "tape": tape}, open(tp, "w"))
                entries.append((r["harness"], tp))
        if not entries:
            continue
        for h, tp, verdict in run_replay_batch(prop, unit, entries):
            tv["witness_tapes_replayed"] += 1
            if verdict == "OK" or verdict.startswith("SKIP replay buffer too large"):
                tv["agreed"] += 1
            else:
                tv["disagreed"].append({"harness": h, "native": verdict[:160]})
                inconclusive.append("%s: a witness input of a passing symbolic path does not replay natively (%s) - translator/stub disagreement" % (h, verdict[:80]))
            try:
                os.unlink(tp)
            except OSError:
                pass
    check._tv = tv
    # ---- output
    for kf, v, h in known_printed:
        print("KNOWN-FINDING: property=%s %s [harness=%s label=%s]" % (prop, kf.get("what", ""), h, v["label"]))
    done = set()
    for h, v, tp in violations_out:
        if (h, v["label"]) in done:
            continue
        done.add((h, v["label"]))
        print("VIOLATION property=%s replay=%s" % (prop, tp))
        print("  harness=%s kind=%s label=%s at %s replay-verdict=%s" % (h, v["kind"], v["label"], v["pos"], v["replay"]))
    for h, v, verdict in spurious:
        print("SPURIOUS property=%s harness=%s label=%s native-replay=%s" % (prop, h, v["label"], verdict[:300]))
        inconclusive.append("%s: counterexample for %s did not reproduce natively (%s)" % (h, v["label"], verdict[:100]))
    for m in sorted(set(inconclusive)):
        print("INCONCLUSIVE property=%s %s" % (prop, m))
    write_evidence(prop, tier, seed, spec, unit_meta, all_results, violations_out, known_printed, spurious, inconclusive, nreplayed, time.time() - t_start)
    if violations_out:
        return 1
    if inconclusive:
        return 2
    tot_a = sum(a[0] for _, rs in all_results for r in rs for a in r.get("asserts", {}).values())
    print("OK property=%s tier=%s harnesses=%d obligations=%d wall=%.1fs" % (prop, tier, sum(len(rs) for _, rs in all_results), tot_a, time.time() - t_start))
    return 0


def write_evidence(prop, tier, seed, spec, unit_meta, all_results, violations_out, known_printed, spurious, inconclusive, nreplayed, wall):
    obligations = 0
    discharged = 0
    nontrivial = 0
    funcs = set()
    stubs = set()
    queries = 0
    stime = 0.0
    paths = 0
    samples = []
    per_harness = []
    bounds = {}
    diff = {"sampled": 0, "agree": 0, "disagree": 0, "unknown": 0, "errors": 0, "notes": []}
    for unit, results in all_results:
        for r in results:
            for lbl, a in r.get("asserts", {}).items():
                obligations += a[0]
                discharged += a[1]
                nontrivial += a[2] if len(a) > 2 else 0
            funcs.update(f for f in r.get("funcs", []))
            stubs.update(r.get("stubs", []))
            queries += r.get("queries", 0)
            stime += r.get("solver_time", 0)
            for kk in ("sampled", "agree", "disagree", "unknown", "errors"):
                diff[kk] += r.get("diff", {}).get(kk, 0)
            diff["notes"] = (diff["notes"] + r.get("diff", {}).get("notes", []))[:6]
            paths += r.get("paths", 0)
            for s in r.get("samples", [])[:1]:
                if len(samples) < 6:
                    samples.append({"harness": r["harness"], "path": s})
            per_harness.append({"harness": r["harness"], "unit": r.get("unit"), "mode": r.get("mode"), "paths": r.get("paths"),
                                "asserts": {k: {"checked": v[0], "discharged": v[1]} for k, v in r.get("asserts", {}).items()},
                                "reached": r.get("reached"), "max_loop_iterations_seen": r.get("max_unwind"), "unwind_cap": r.get("unwind"),
                                "maxlen": r.get("maxlen"), "queries": r.get("queries"), "solver_s": r.get("solver_time"), "wall_s": r.get("wall"),
                                "violations": [{"kind": v["kind"], "label": v["label"], "pos": v["pos"], "replay": v.get("replay"), "tape": v.get("tape_path")} for v in r.get("violations", [])][:6],
                                "inconclusive": r.get("inconclusive")})
    for h, v, tp in violations_out[:3]:
        samples.append({"counterexample": {"harness": h, "label": v["label"], "tape": tp, "replay": v.get("replay")}})
    if not samples:
        samples.append({"note": "no symbolic branch in any path"})
    ev = {
        "property_id": prop,
        "tier": tier,
        "seed": seed,
        "level": spec.get("level", "other"),
        "coverage": {
            "explanation": spec.get("explanation", "") + " Verdicts are SMT (z3 %s) answers over symbolic inputs within the stated bounds; 'discharged' counts obligations whose negation was unsat under the path condition." % _z3v(),
            "evaluations": max(obligations, 1),
            "distinct_nontrivial": max(nontrivial, 0),
            "rule": "one evaluation = one (harness, assertion label, path) obligation; distinct by construction (different path or different assertion); non-trivial = the asserted term did not simplify to true syntactically, i.e. the obligation was decided by an SMT query under the path condition",
            "obligations": obligations,
            "discharged": discharged,
            "paths": paths,
            "queries": queries,
            "solver_time_s": round(stime, 2),
            "functions_encoded": sorted(f for f in funcs if "VH_" not in f),
            "stubs_hit": sorted(stubs),
            "units": unit_meta,
            "harnesses": per_harness,
            "bounds": spec.get("bounds", {}),
            "outside": spec.get("outside", []),
            "second_solver_cross_check": dict(diff, solvers=["z3 4.8.12 (/usr/bin/z3)", "cvc5"], rule="every N-th discharged obligation is re-decided through SMT-LIB2 text; thorough tier only"),
            "translator_validation": getattr(check, "_tv", None),
            "counterexamples_replayed": nreplayed,
            "known_findings_printed": [k.get("what") for k, _, _ in known_printed],
            "spurious": [{"harness": h, "label": v["label"], "native": verdict[:200]} for h, v, verdict in spurious],
            "inconclusive": sorted(set(inconclusive)),
            "samples": samples,
            "exhaustive": False,
        },
        "assumptions": spec.get("assumptions", []),
        "wall_s": round(wall, 2),
        "violations": len(violations_out),
    }
    os.makedirs(EVID, exist_ok=True)
    json.dump(ev, open(os.path.join(EVID, prop + ".json"), "w"), indent=1, default=str)


def _z3v():
    import z3
    return z3.get_version_string()


def main(argv):
    if len(argv) >= 3 and argv[0] == "check":
        only = argv[3] if len(argv) > 3 else None
        sys.exit(check(argv[1], argv[2], only))
    if len(argv) >= 2 and argv[0] == "replay":
        sys.path.insert(0, VERIF)
        import props
        t = json.load(open(argv[1]))
        spec = props.PROPS[t["property"]]
        unit = [u for u in spec["units"] if u["name"] == t["unit"]][0]
        if t.get("kind") == "schedule":
            # engine-B counterexample: replay the schedule on the instrumented real code
            from . import conc_replay
            cfgc = dict([c for c in unit["configs"] if c["name"] == t["config"]][0])
            cfgc["_ops"] = {int(k): tuple(v) for k, v in t.get("ops", {}).items()}
            ok, detail = getattr(conc_replay, unit.get("replayer", "replay_queue"))(t["property"], unit, cfgc, {"label": t["label"]}, os.path.abspath(argv[1]))
            print("VREPLAY-RESULT:", ("REPRODUCED " if ok else "NOT-REPRODUCED ") + detail)
            sys.exit(0)
        print("VREPLAY-RESULT:", run_replay(t["property"], unit, t["harness"], os.path.abspath(argv[1])))
        sys.exit(0)
    print(__doc__)
    sys.exit(2)


if __name__ == "__main__":
    main(sys.argv[1:])
