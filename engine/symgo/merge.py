"""If-conversion and pure-call summarisation: side-effect-free acyclic regions are evaluated
under guards and merged into ite-terms instead of forking the path."""
import z3
from .vals import *
from .arith import simp, bnot, band, ite
from .engine import Frame, State, GoPanic, PathEnd, ForkResult, Unsupported

PURE_OPS = {"BinOp", "UnOp", "Convert", "ChangeType", "ChangeInterface", "Extract", "Field", "FieldAddr", "Phi",
            "IndexAddr", "Index", "Slice", "MakeInterface", "TypeAssert", "Call", "Jump", "If", "Return", "Panic"}
PURE_BUILTINS = {"len", "cap", "min", "max"}
PURE_INTRINSICS = {"vMaxLen", "vCfg", "vSameMem", "vBaseCap"}
PURE_STUBS = {"math/bits." + n + s for n in ("Len", "TrailingZeros", "LeadingZeros", "OnesCount") for s in ("", "64", "32", "16", "8")}


class NotPure(Exception):
    pass


def postdoms(fn):
    """immediate post-dominator per block index (None = exit)"""
    if "_ipdom" in fn:
        return fn["_ipdom"]
    blocks = fn["blocks"]
    n = len(blocks)
    EXIT = n
    succs = {b["i"]: (b["succs"] or []) for b in blocks}
    for b in blocks:
        if not succs[b["i"]]:
            succs[b["i"]] = [EXIT]
    allset = set(range(n + 1))
    pd = {i: set(allset) for i in range(n)}
    pd[EXIT] = {EXIT}
    changed = True
    while changed:
        changed = False
        for i in range(n - 1, -1, -1):
            new = None
            for s in succs[i]:
                new = set(pd[s]) if new is None else (new & pd[s])
            new = (new or set()) | {i}
            if new != pd[i]:
                pd[i] = new
                changed = True
    ip = {}
    for i in range(n):
        cands = pd[i] - {i}
        # immediate = the candidate that is post-dominated by all other candidates
        best = None
        for c in cands:
            if all((d in pd[c]) for d in cands):
                best = c
                break
        ip[i] = None if best == EXIT else best
    fn["_ipdom"] = ip
    return ip


def block_static_pure(ex, fn, blk):
    key = "_pure"
    if key in blk:
        return blk[key]
    ok = True
    for ins in blk["instrs"]:
        op = ins["op"]
        if op not in PURE_OPS:
            ok = False
            break
        if op == "Call":
            c = ins["call"]
            if c.get("invoke"):
                ok = False
                break
            f = c["fn"]
            if f["k"] == "builtin":
                if f["n"] not in PURE_BUILTINS:
                    ok = False
                    break
            elif f["k"] == "func":
                nm = f["n"]
                short = nm.rsplit(".", 1)[-1]
                if nm in PURE_STUBS or short in PURE_INTRINSICS:
                    continue
                if not fn_static_pure(ex, nm):
                    ok = False
                    break
            else:
                ok = False
                break
        if op == "UnOp" and ins["unop"] == "<-":
            ok = False
            break
        if op == "Convert":
            # conversions that allocate (string<->[]byte) are not pure
            ft, tt = ex.p.U(ins["xt"]), ex.p.U(ins["t"])
            if not (ex.p.intinfo(ins["xt"]) and ex.p.intinfo(ins["t"])) and not (ft["k"] == "ptr" or tt["k"] == "ptr" or (ft["k"] == "basic" and ft["bk"] == 18) or (tt["k"] == "basic" and tt["bk"] == 18)):
                ok = False
                break
    blk[key] = ok
    return ok


def fn_static_pure(ex, fname, _stack=None):
    fn = ex.p.funcs.get(fname)
    if fn is None:
        return False
    if "_purefn" in fn:
        return fn["_purefn"]
    if fname in ex.stubs:
        return False
    _stack = _stack or set()
    if fname in _stack:
        return False
    fn["_purefn"] = False  # recursion guard
    ok = len(fn["blocks"]) <= 24 and all(block_static_pure(ex, fn, b) for b in fn["blocks"])
    # acyclic?
    if ok:
        color = {}

        def dfs(i):
            color[i] = 1
            for s in fn["_blocks"][i]["succs"] or []:
                if color.get(s) == 1:
                    return False
                if s not in color and not dfs(s):
                    return False
            color[i] = 2
            return True
        ok = dfs(0) or fn.get("_allow_cyclic", False)
    fn["_purefn"] = ok
    return ok


class Region:
    def __init__(self, ex, st):
        self.ex = ex
        self.st = st
        self.obligs = []   # (guard, ok-cond, what)
        self.npaths = 0


def eval_region(ex, st, fn, start_block, prev_block, env, guard, stop_block, region, depth=0):
    """evaluate from start_block (entered from prev_block) until stop_block (join) or Return.
    returns list of arrivals: (guard, kind, prev_block|None, env|retval)"""
    arrivals = []
    stack = [(start_block, prev_block, env, guard, 0, ())]
    while stack:
        b, prev, env, g, steps, seen = stack.pop()
        if steps > 60:
            raise NotPure()
        if b in seen:
            # loop inside the region: keep unrolling only while a further iteration is feasible
            if seen.count(b) > ex.unwind:
                raise NotPure()
            if g is not True and ex.check(st, g) == "unsat":
                continue
        seen = seen + (b,)
        if b == stop_block:
            arrivals.append((g, "join", prev, env))
            region.npaths += 1
            if region.npaths > 48:
                raise NotPure()
            continue
        blk = fn["_blocks"][b]
        if not block_static_pure(ex, fn, blk):
            raise NotPure()
        env = dict(env)
        tf = Frame(fn)
        tf.locals = env
        tf.block = b
        tf.prev = prev
        # phis
        instrs = blk["instrs"]
        ip = 0
        if prev is not None and instrs and instrs[0]["op"] == "Phi":
            pi = blk["preds"].index(prev)
            newv = {}
            while ip < len(instrs) and instrs[ip]["op"] == "Phi":
                newv[instrs[ip]["name"]] = ex.val(st, tf, instrs[ip]["edges"][pi])
                ip += 1
            env.update(newv)
        st.frames.append(tf)
        try:
            while ip < len(instrs):
                ins = instrs[ip]
                ip += 1
                op = ins["op"]
                if op == "Jump":
                    stack.append((blk["succs"][0], b, env, g, steps + 1, seen))
                    break
                if op == "Panic":
                    region.obligs.append((g, False, "explicit panic"))
                    break
                if op == "If":
                    c = ex.val(st, tf, ins["cond"])
                    c = simp(c) if is_sym(c) else c
                    if c is True:
                        stack.append((blk["succs"][0], b, env, g, steps + 1, seen))
                    elif c is False:
                        stack.append((blk["succs"][1], b, env, g, steps + 1, seen))
                    else:
                        stack.append((blk["succs"][1], b, env, band(g, z3.Not(c)), steps + 1, seen))
                        stack.append((blk["succs"][0], b, env, band(g, c), steps + 1, seen))
                    break
                if op == "Return":
                    vals = [ex.val(st, tf, r) for r in ins["results"]]
                    rv = vals[0] if len(vals) == 1 else (tuple(vals) if vals else None)
                    arrivals.append((g, "ret", None, rv))
                    region.npaths += 1
                    if region.npaths > 48:
                        raise NotPure()
                    break
                if op == "Call":
                    c = ins["call"]
                    f = c["fn"]
                    if f["k"] == "func" and f["n"] not in PURE_STUBS and f["n"].rsplit(".", 1)[-1] not in PURE_INTRINSICS:
                        if depth > 3:
                            raise NotPure()
                        args = [ex.val(st, tf, a) for a in c["args"]]
                        rv = pure_call_value(ex, st, f["n"], args, g, region, depth + 1)
                        env[ins["name"]] = rv
                        continue
                ex._region = (region, g)
                try:
                    r = ex.exec_instr(st, tf, ins)
                finally:
                    ex._region = None
                if r is not None:
                    raise NotPure()
        finally:
            st.frames.pop()
    return arrivals


def merge_values(ex, arrivals, getter):
    """ite-chain over arrivals; all values must be scalars (or identical)"""
    vals = [(g, getter(a)) for g, _, _, a in arrivals]
    first = vals[-1][1]
    res = first
    for g, v in reversed(vals[:-1]):
        res = merge2(ex, g, v, res)
    return res


def merge2(ex, g, a, b):
    if a is b:
        return a
    sa = isinstance(a, (int, bool)) or is_sym(a)
    sb = isinstance(b, (int, bool)) or is_sym(b)
    if sa and sb:
        if isinstance(a, bool) or isinstance(b, bool) or (is_sym(a) and z3.is_bool(a)):
            return simp(ite(g, a, b, lambda x: x))
        bits = a.size() if (is_sym(a) and z3.is_bv(a)) else (b.size() if (is_sym(b) and z3.is_bv(b)) else 64)
        return simp(ite(g, a, b, lambda x: ex.A.mk(x, bits)))
    if isinstance(a, tuple) and isinstance(b, tuple) and len(a) == len(b) and type(a) == type(b):
        return type(a)(merge2(ex, g, x, y) for x, y in zip(a, b))
    if a is None and b is None:
        return None
    if isinstance(a, Ptr) and isinstance(b, Ptr) and a.obj == b.obj and len(a.path) == len(b.path):
        return Ptr(a.obj, [merge2(ex, g, x, y) for x, y in zip(a.path, b.path)])
    if isinstance(a, SliceV) and isinstance(b, SliceV) and a.isstr == b.isstr:
        if a.ptr is None and b.ptr is None:
            return a
        if a.ptr is not None and b.ptr is not None and a.ptr.key() == b.ptr.key():
            return SliceV(a.ptr, merge2(ex, g, a.off, b.off), merge2(ex, g, a.len, b.len), merge2(ex, g, a.cap, b.cap), a.isstr)
    if isinstance(a, Iface) and isinstance(b, Iface) and a.tid == b.tid:
        return Iface(a.tid, merge2(ex, g, a.val, b.val))
    if isinstance(a, Closure) and isinstance(b, Closure) and a.fn == b.fn and not a.binds and not b.binds:
        return a
    raise NotPure()


def discharge(ex, st, region):
    """all bounds obligations collected in the region must be valid under the path condition"""
    for g, ok, what in region.obligs:
        bad = band(g, bnot(ok))
        bad = simp(bad) if is_sym(bad) else bad
        if bad is False:
            continue
        if bad is True or ex.check(st, bad) != "unsat":
            raise NotPure()


def pure_call_value(ex, st, fname, args, guard, region, depth):
    fn = ex.p.funcs.get(fname)
    if fn is None or not fn_static_pure(ex, fname):
        raise NotPure()
    env = {}
    for p, a in zip(fn["params"], args):
        env[p["n"]] = a
    arr = eval_region(ex, st, fn, 0, None, env, guard, -1, region, depth)
    if not arr:
        raise NotPure()
    ex.stats.funcs.add(fname)
    # guards of arrivals are relative to the incoming guard already
    return merge_values(ex, arr, lambda rv: rv)


def try_pure_call(ex, st, fname, args):
    """returns (True, value) if the call could be summarised"""
    if not ex.merge_enabled:
        return False, None
    fn = ex.p.funcs.get(fname)
    if fn is None or not fn_static_pure(ex, fname):
        return False, None
    region = Region(ex, st)
    npc = len(st.pc)
    try:
        v = pure_call_value(ex, st, fname, args, True, region, 0)
        discharge(ex, st, region)
    except (NotPure, GoPanic, Unsupported, PathEnd):
        del st.pc[npc:]
        return False, None
    ex.stats.merged_calls += 1
    return True, v


def try_merge_if(ex, st, fr, ins, c):
    """c symbolic. Try to if-convert the region between this If and its immediate post-dominator."""
    if not ex.merge_enabled:
        return False
    fn = fr.fn
    ip = postdoms(fn).get(fr.block)
    if ip is None:
        return False
    succs = fn["_blocks"][fr.block]["succs"]
    region = Region(ex, st)
    npc = len(st.pc)
    try:
        env = dict(fr.locals)
        arr = eval_region(ex, st, fn, succs[0], fr.block, env, c, ip, region)
        arr += eval_region(ex, st, fn, succs[1], fr.block, env, z3.Not(c), ip, region)
        if any(k != "join" for _, k, _, _ in arr) or not arr:
            raise NotPure()
        discharge(ex, st, region)
        jb = fn["_blocks"][ip]
        newv = {}
        nphi = 0
        for pins in jb["instrs"]:
            if pins["op"] != "Phi":
                break
            nphi += 1

            def getter(env_prev, pins=pins):
                return None
            vals = []
            for g, _, prev, env2 in arr:
                pi = jb["preds"].index(prev)
                tf = Frame(fn)
                tf.locals = env2
                vals.append((g, None, None, ex.val(st, tf, pins["edges"][pi])))
            newv[pins["name"]] = merge_values(ex, vals, lambda v: v)
    except (NotPure, GoPanic, Unsupported, PathEnd, ValueError):
        del st.pc[npc:]
        return False
    # commit
    fr.prev = arr[0][2]
    fr.block = ip
    fr.ip = nphi
    fr.locals.update(newv)
    st.nbranch += 1
    ex.stats.merged_ifs += 1
    return True
