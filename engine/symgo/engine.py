"""Sequential symbolic executor over go/ssa (JSON form produced by ssajson)."""
import json
import os
import sys
import time
import z3

# z3 5.1's Diophantine-equation sub-solver (lp.dio) ran for > 15 min inside single queries (bignum gcd in
# dioph_eq::rewrite_eqs, not counted by rlimit, not interruptible) - on mutated trees and, with one more assertion in
# a harness, on the unchanged tree. It is switched off; VERIF_Z3_GLOBAL can override ("lp.dio=true").
z3.set_param("lp.dio", False)
for _kv in os.environ.get("VERIF_Z3_GLOBAL", "").split(","):
    if "=" in _kv:
        _k, _v = _kv.split("=", 1)
        z3.set_param(_k.strip(), _v.strip())

from .vals import *
from .arith import IntMode, BVMode, simp, bnot, band, bor, ite, norm

sys.setrecursionlimit(100000)

BASIC_INT = {  # go/types BasicKind -> (bits, signed)
    2: (64, True), 3: (8, True), 4: (16, True), 5: (32, True), 6: (64, True),
    7: (64, False), 8: (8, False), 9: (16, False), 10: (32, False), 11: (64, False), 12: (64, False),
    20: (64, True), 21: (32, True),
}
BK_BOOL = (1, 19)
BK_STRING = (17, 24)
BK_UNSAFEPTR = 18
BK_FLOAT = (13, 14, 22)


class Prog:
    def __init__(self, j):
        self.types = j["types"]
        self.funcs = j["funcs"]
        self.methods = j["methods"]
        self.globals = j["globals"]
        self.external = set(j["external"])
        self.roots = j["roots"]
        self._under = {}
        for f in self.funcs.values():
            f["params"] = f.get("params") or []
            f["freevars"] = f.get("freevars") or []
            for b in f["blocks"]:
                b["preds"] = b.get("preds") or []
                b["succs"] = b.get("succs") or []
                b["instrs"] = b.get("instrs") or []
                for ins in b["instrs"]:
                    for k in ("results", "edges", "bindings"):
                        if k in ins and ins[k] is None:
                            ins[k] = []
                    if "call" in ins and ins["call"].get("args") is None:
                        ins["call"]["args"] = []
            f["_blocks"] = {b["i"]: b for b in f["blocks"]}
        for t in self.types:
            for k in ("fields", "methods", "params", "results", "elems"):
                if k in t and t[k] is None:
                    t[k] = []

    def T(self, tid):
        return self.types[tid]

    def under(self, tid):
        t = self.types[tid]
        while t["k"] == "named":
            tid = t["under"]
            t = self.types[tid]
        return tid

    def U(self, tid):
        return self.types[self.under(tid)]

    def intinfo(self, tid):
        t = self.U(tid)
        if t["k"] == "basic":
            return BASIC_INT.get(t["bk"])
        return None

    def is_byte_elem(self, tid):
        t = self.U(tid)
        return t["k"] == "basic" and t["bk"] == 8

    def tname(self, tid):
        return self.types[tid].get("s", "?")


class Frame:
    __slots__ = ("fn", "block", "ip", "prev", "locals", "defers", "retname", "visits", "deferring", "panicking", "catch")

    def __init__(self, fn, retname=None):
        self.fn = fn
        self.block = 0
        self.ip = 0
        self.prev = -1
        self.locals = {}
        self.defers = []
        self.retname = retname
        self.visits = {}
        self.deferring = None
        self.panicking = None
        self.catch = False

    def clone(self):
        f = Frame(self.fn, self.retname)
        f.block, f.ip, f.prev = self.block, self.ip, self.prev
        f.locals = dict(self.locals)
        f.defers = list(self.defers)
        f.visits = dict(self.visits)
        f.deferring = self.deferring
        f.panicking = self.panicking
        f.catch = self.catch
        return f


class State:
    def __init__(self):
        self.frames = []
        self.heap = {}
        self.pc = []
        self.tape = []       # nondet log: dicts
        self.ghost = {}      # free-form persistent ghost state used by stubs (values must be immutable)
        self.events = []     # trace of notable events (for samples)
        self.status = None
        self.nbranch = 0
        self.nforks = 0

    def clone(self):
        s = State()
        s.frames = [f.clone() for f in self.frames]
        s.heap = dict(self.heap)
        s.pc = list(self.pc)
        s.tape = list(self.tape)
        s.ghost = dict(self.ghost)
        s.events = list(self.events)
        s.nbranch = self.nbranch
        s.nforks = self.nforks
        return s


_CRC_T = []
for _i in range(256):
    _c = _i
    for _ in range(8):
        _c = (_c >> 1) ^ 0xEDB88320 if _c & 1 else _c >> 1
    _CRC_T.append(_c)


def crc32_forge(prefix, target):
    """4 bytes X such that zlib.crc32(prefix + X) == target"""
    s = 0xFFFFFFFF
    for b in prefix:
        s = _CRC_T[(s ^ b) & 0xFF] ^ (s >> 8)
    r = target ^ 0xFFFFFFFF
    for _ in range(4):
        idx = next(i for i in range(256) if _CRC_T[i] >> 24 == r >> 24)
        r = (((r ^ _CRC_T[idx]) << 8) & 0xFFFFFFFF) | idx
    x = r ^ s
    return bytes([(x >> (8 * i)) & 0xFF for i in range(4)])


class PathEnd(Exception):
    pass


class Violation:
    def __init__(self, kind, label, pos, tape, detail=""):
        self.kind = kind      # 'assert' | 'panic' | 'unwind'
        self.label = label
        self.pos = pos
        self.tape = tape
        self.detail = detail

    def asdict(self):
        return {"kind": self.kind, "label": self.label, "pos": self.pos, "tape": self.tape, "detail": self.detail}


class Stats:
    def __init__(self):
        self.queries = 0
        self.solver_time = 0.0
        self.paths = 0
        self.paths_done = 0
        self.asserts = {}       # label -> [checked, discharged, nontrivial]
        self.reached = {}       # label -> count
        self.funcs = set()
        self.stubs = set()
        self.unknown = 0
        self.unwind_exceeded = []
        self.max_unwind = 0
        self.nontrivial_paths = 0
        self.samples = []
        self.merged_ifs = 0
        self.merged_calls = 0
        self.procs = 1
        self.diff = {"sampled": 0, "agree": 0, "disagree": 0, "unknown": 0, "errors": 0, "notes": []}
        self.witnesses = []

    def to_dict(self):
        d = dict(self.__dict__)
        d["funcs"] = sorted(self.funcs)
        d["stubs"] = sorted(self.stubs)
        return d

    def merge(self, d):
        for k in ("queries", "solver_time", "paths", "paths_done", "unknown", "nontrivial_paths", "merged_ifs", "merged_calls", "procs"):
            setattr(self, k, getattr(self, k) + d.get(k, 0))
        for k, v in d["asserts"].items():
            r = self.asserts.setdefault(k, [0, 0, 0])
            for i in range(3):
                r[i] += v[i]
        for k, v in d["reached"].items():
            self.reached[k] = self.reached.get(k, 0) + v
        self.funcs.update(d["funcs"])
        self.stubs.update(d["stubs"])
        self.unwind_exceeded.extend(d["unwind_exceeded"])
        self.max_unwind = max(self.max_unwind, d["max_unwind"])
        if len(self.samples) < 3:
            self.samples.extend(d["samples"][: 3 - len(self.samples)])
        self.witnesses = (self.witnesses + d.get("witnesses", []))[:8]
        for k in ("sampled", "agree", "disagree", "unknown", "errors"):
            self.diff[k] += d.get("diff", {}).get(k, 0)
        self.diff["notes"] = (self.diff["notes"] + d.get("diff", {}).get("notes", []))[:6]


def _die_with_parent():
    """a forked explorer must not outlive the process that collects its result (watchdog exits, external kills)"""
    try:
        import ctypes
        import signal
        ctypes.CDLL("libc.so.6", use_errno=True).prctl(1, signal.SIGKILL)  # PR_SET_PDEATHSIG
        if os.getppid() == 1:
            os._exit(4)
    except Exception:
        pass


class Executor:
    def __init__(self, prog, mode="int", unwind=8, timeout_ms=60000, maxlen=1 << 31, cfg=None):
        self.p = prog
        self.A = BVMode() if mode == "bv" else IntMode()
        self.bv = mode == "bv"
        self.unwind = unwind
        self.maxlen = maxlen
        self.cfg = cfg or {}
        self.solver = z3.Solver()
        # resource limit instead of a wall-clock timeout: deterministic, and no timer threads (the process forks)
        self.solver.set("rlimit", int(self.cfg.get("rlimit", 80000000)))
        self._sstack = []
        self.stats = Stats()
        self.violations = []
        self.objctr = 0
        self.symctr = 0
        self.stubs = {}
        self.intrinsics = {}
        self.inconclusive = []
        self.expect_panic = False
        self.stop_on_first = False
        self.small_model_bounds = (64, 8192)
        self.path_limit = self.cfg.get("path_limit", 20000)
        self.unwind_assume = set(self.cfg.get("unwind_assume", []))
        self._extra = []   # states that continue after a runtime panic was caught by a vPanics frame
        self._region = None
        self.merge_enabled = self.cfg.get("merge", True)
        from . import stubs as _st
        _st.install(self)

    # ------------------------------------------------------------------ helpers
    def newobj(self, hint="o"):
        self.objctr += 1
        return "%s%d" % (hint, self.objctr)

    def fresh_name(self, base):
        self.symctr += 1
        return "%s!%d" % (base, self.symctr)

    def mkint(self, x, tid=None):
        bits = 64
        if tid is not None:
            ii = self.p.intinfo(tid)
            if ii:
                bits = ii[0]
        return self.A.mk(x, bits)

    def byte_sort(self):
        return z3.BitVecSort(8) if self.bv else z3.IntSort()

    def idx_sort(self):
        return z3.BitVecSort(64) if self.bv else z3.IntSort()

    def new_base(self, name):
        nm = self.fresh_name(name)
        fn = z3.Function(nm, self.idx_sort(), self.byte_sort())
        return ABase(nm, fn)

    # ------------------------------------------------------------------ solver
    def sync_solver(self, st):
        """make the solver's assertion stack equal to st.pc, reusing the common prefix (DFS order keeps it long)"""
        stack = self._sstack
        pc = st.pc
        n = min(len(stack), len(pc))
        i = 0
        while i < n and stack[i] is pc[i]:
            i += 1
        if i < len(stack):
            self.solver.pop(len(stack) - i)
            del stack[i:]
        for c in pc[i:]:
            self.solver.push()
            self.solver.add(c)
            stack.append(c)

    def check(self, st, extra=None):
        """returns 'sat' | 'unsat' | 'unknown' for pc /\\ extra"""
        t0 = time.time()
        self.sync_solver(st)
        self._wd_arm()
        try:
            if extra is not None and extra is not True:
                self.solver.push()
                self.solver.add(extra)
                r = self.solver.check()
                self._last_model = self.solver.model() if r == z3.sat else None
                self.solver.pop()
            else:
                r = self.solver.check()
                self._last_model = self.solver.model() if r == z3.sat else None
        finally:
            self._q_start = None
        self.stats.queries += 1
        dt = time.time() - t0
        self.stats.solver_time += dt
        res = str(r)
        if res == "unknown":
            self.stats.unknown += 1
        return res

    # ------------------------------------------------------------------ wall-clock watchdog for single queries
    # rlimit is the (deterministic) budget of every query, but some z3 5.1 arithmetic sub-procedures (dioph_eq on
    # big numerals) do not count against it and were seen to run for > 15 min on mutated trees. A per-process
    # thread interrupts a query that exceeds VERIF_QWALL seconds (the query then answers "unknown", which is never
    # success); if the interrupt is not honoured within 60 s the process records what it has and exits.
    _q_start = None
    _wd_pid = None
    _child_out = None

    def _wd_arm(self):
        import os
        self._q_start = time.time()
        if self._wd_pid == os.getpid():
            return
        self._wd_pid = os.getpid()
        import threading
        lim = float(os.environ.get("VERIF_QWALL", self.cfg.get("qwall", 420)))

        def watch():
            fired_for = None
            while True:
                time.sleep(min(5.0, max(0.05, lim / 4)))
                qs = self._q_start
                if qs is None:
                    fired_for = None
                    continue
                el = time.time() - qs
                if el > lim and fired_for != qs:
                    fired_for = qs
                    self.inconclusive.append("solver query exceeded %d s wall-clock (interrupted)" % lim)
                    try:
                        self.solver.ctx.interrupt()
                    except Exception:
                        pass
                elif el > lim + 60 and fired_for == qs:
                    self.inconclusive.append("solver did not honour the interrupt; sub-tree abandoned")
                    self._emergency_exit()

        threading.Thread(target=watch, daemon=True).start()

    def _emergency_exit(self):
        import os
        try:
            if self._child_out:
                out = {"stats": self.stats.to_dict(), "violations": [v.asdict() for v in self.violations], "inconclusive": self.inconclusive}
                with open(self._child_out, "w") as f:
                    json.dump(out, f, default=str)
        finally:
            try:
                if self._child_out and self.slots is not None:
                    self.release_slot()
            finally:
                os._exit(3)

    # ------------------------------------------------------------------ second-solver cross-check (thorough tier)
    def cross_check(self, st, bad, label):
        """re-discharge a sampled unsat obligation with z3 4.8.12 (/usr/bin/z3) and cvc5 through SMT-LIB2 text"""
        n = self.cfg.get("diff_every", 0)
        if not n:
            return
        self._diffctr = getattr(self, "_diffctr", 0) + 1
        if self._diffctr % n != 1 % n:
            return
        import subprocess
        import tempfile
        s = z3.Solver()
        for c in st.pc:
            s.add(c)
        s.add(bad)
        text = "(set-logic ALL)\n" + s.to_smt2()
        fd, path = tempfile.mkstemp(prefix="symgo_diff_", suffix=".smt2", dir=self.cfg.get("tmpdir"))
        with open(fd, "w") as f:
            f.write(text)
        d = self.stats.diff
        d["sampled"] += 1
        try:
            for name, cmd in (("z3-4.8.12", ["/usr/bin/z3", "-smt2", "-T:60", path]), ("cvc5", ["cvc5", "--lang", "smt2", "--tlimit=60000", path])):
                try:
                    r = subprocess.run(cmd, stdout=subprocess.PIPE, stderr=subprocess.STDOUT, text=True, timeout=90)
                    out = r.stdout.strip()
                except Exception as ex:  # noqa
                    out = "timeout-or-failure: %s" % ex
                first = out.splitlines()[0].strip() if out else ""
                if "(error" in out or first not in ("sat", "unsat", "unknown"):
                    d["errors"] += 1
                    d["notes"].append("%s on %s: %s" % (name, label, out[:120]))
                elif first == "unsat":
                    d["agree"] += 1
                elif first == "unknown" or first.startswith("timeout"):
                    d["unknown"] += 1
                else:
                    d["disagree"] += 1
                    self.inconclusive.append("solver disagreement on %s: %s answers %s, z3 %s answered unsat" % (label, name, first, z3.get_version_string()))
        finally:
            try:
                os.unlink(path)
            except OSError:
                pass

    def model_for(self, st, extra=None):
        """find a model of pc/\\extra, preferring small values for nondet ints"""
        ints = [e["sym"] for e in st.tape if e["kind"] in ("int",) and is_sym(e["sym"])]
        lens = [e["n"] for e in st.tape if e["kind"] == "bytes" and is_sym(e["n"])]
        self.sync_solver(st)
        attempts = []
        if st.ghost.get("crc_fix"):
            attempts.append((4, self.small_model_bounds[0]))   # room for a CRC-forcing 4-byte suffix in the replay
        attempts += [(None, b) for b in self.small_model_bounds] + [(None, None)]
        for lo, bound in attempts:
            self.solver.push()
            if extra is not None and extra is not True:
                self.solver.add(extra)
            if lo is not None:
                for v in lens:
                    self.solver.add(self.A.cmp(">=", v, lo))
            if bound is not None:
                for v in ints + lens:
                    if self.bv:
                        b = v.size()
                        if b > 16:
                            self.solver.add(z3.Or(z3.ULE(v, z3.BitVecVal(bound, b)), z3.UGE(v, z3.BitVecVal((1 << b) - bound, b))))
                    else:
                        self.solver.add(z3.And(v <= bound, v >= -bound))
            t0 = time.time()
            r = self.solver.check()
            self.stats.queries += 1
            self.stats.solver_time += time.time() - t0
            m = self.solver.model() if str(r) == "sat" else None
            self.solver.pop()
            if m is not None:
                return m
        return None

    def tape_from_model(self, st, m):
        out = []
        for e in st.tape:
            if e["kind"] == "int":
                v = e["sym"]
                if is_sym(v):
                    v = m.eval(v, model_completion=True)
                    if z3.is_bv_value(v):
                        v = norm(v.as_long(), e["bits"], e["signed"])
                    else:
                        v = v.as_long()
                out.append({"name": e["name"], "kind": "int", "v": str(v)})
            elif e["kind"] == "bool":
                v = e["sym"]
                if is_sym(v):
                    v = z3.is_true(m.eval(v, model_completion=True))
                out.append({"name": e["name"], "kind": "bool", "v": bool(v)})
            elif e["kind"] == "bytes":
                n = e["n"]
                if is_sym(n):
                    n = m.eval(n, model_completion=True).as_long()
                data = []
                if n <= (1 << 22):
                    fn = e["base"].fn
                    # evaluate the function interpretation pointwise (cheap for small n)
                    cache_else = None
                    for i in range(n):
                        iv = z3.BitVecVal(i, 64) if self.bv else z3.IntVal(i)
                        bv = m.eval(fn(iv), model_completion=True)
                        data.append(bv.as_long() & 0xFF)
                        if i > 70000:
                            break
                    if len(data) < n:
                        data += [0xA5] * (n - len(data))
                out.append({"name": e["name"], "kind": "bytes", "n": str(n), "hex": bytes(data).hex(), "_base": e["base"].name})
        # CRC32 is an uninterpreted function on the symbolic side: make the concrete message hash to the model's value
        for v, base_name in st.ghost.get("crc_fix", ()):
            if base_name is None:
                continue
            target = m.eval(v, model_completion=True).as_long() & 0xFFFFFFFF
            for o in out:
                if o.get("_base") == base_name and int(o["n"]) >= 4 and len(o["hex"]) == 2 * int(o["n"]):
                    data = bytearray(bytes.fromhex(o["hex"]))
                    data[-4:] = crc32_forge(bytes(data[:-4]), target)
                    o["hex"] = bytes(data).hex()
        for o in out:
            o.pop("_base", None)
        return out

    # ------------------------------------------------------------------ memory
    def zero(self, tid):
        t = self.p.T(tid)
        k = t["k"]
        if k == "named":
            if t["name"] in ("sync.Mutex", "sync.RWMutex", "sync.Once", "sync.WaitGroup", "sync.noCopy"):
                return Opaque(t["name"])
            return self.zero(t["under"])
        if k == "basic":
            bk = t["bk"]
            if bk in BK_BOOL:
                return False
            if bk in BK_STRING:
                return SliceV(None, 0, 0, 0, True)
            if bk == BK_UNSAFEPTR:
                return None
            if bk in BK_FLOAT:
                return 0
            return 0
        if k in ("ptr", "iface", "map", "chan", "sig"):
            return None
        if k == "slice":
            return NIL_SLICE
        if k == "struct":
            return StructV(self.zero(f["t"]) for f in t["fields"])
        if k == "array":
            if self.p.is_byte_elem(t["elem"]):
                return Bytes(AZero(), t["len"])
            z = self.zero(t["elem"])
            return StructV([z] * t["len"])
        if k == "tuple":
            return tuple(self.zero(e) for e in t["elems"])
        raise Unsupported("zero of " + t.get("s", k))

    def alloc(self, st, val, hint="o"):
        o = self.newobj(hint)
        st.heap[o] = val
        return Ptr(o, ())

    def select(self, st, arr, i):
        """read byte i of array expression arr"""
        while True:
            if isinstance(arr, AZero):
                return 0
            if isinstance(arr, ABase):
                iv = self.A.mk(i, 64)
                v = arr.fn(iv)
                if not self.bv:
                    st.pc.append(z3.And(v >= 0, v <= 255))
                return v
            if isinstance(arr, AConst):
                if isinstance(i, int):
                    return arr.data[i] if 0 <= i < len(arr.data) else 0
                e = self.A.mk(0, 8 if self.bv else 64)
                if len(arr.data) > 256:
                    raise Unsupported("symbolic index into long constant")
                for k in range(len(arr.data) - 1, -1, -1):
                    e = z3.If(self.A.cmp("==", i, k), self.A.mk(arr.data[k], 8 if self.bv else 64), e)
                return e
            if isinstance(arr, AStore):
                c = self.A.cmp("==", i, arr.i)
                if c is True:
                    return arr.v
                if c is False:
                    arr = arr.a
                    continue
                rest = self.select(st, arr.a, i)
                return ite(c, arr.v, rest, lambda x: self.A.mk(x, 8 if self.bv else 64))
            if isinstance(arr, ACopy):
                inr = band(self.A.cmp("<=", arr.doff, i), self.A.cmp("<", i, self.add(arr.doff, arr.n)))
                inr = simp(inr)
                if inr is True:
                    arr, i = arr.src, self.add(self.sub(i, arr.doff), arr.soff)
                    continue
                if inr is False:
                    arr = arr.dst
                    continue
                a = self.select(st, arr.src, self.add(self.sub(i, arr.doff), arr.soff))
                b = self.select(st, arr.dst, i)
                return ite(inr, a, b, lambda x: self.A.mk(x, 8 if self.bv else 64))
            raise Unsupported("array expr")

    # plain (non wrapping) index arithmetic helpers: indices are bounded by object sizes
    def add(self, a, b):
        if isinstance(a, int) and isinstance(b, int):
            return a + b
        if isinstance(a, int) and a == 0:
            return b
        if isinstance(b, int) and b == 0:
            return a
        return simp(self.A.mk(a) + self.A.mk(b))

    def sub(self, a, b):
        if isinstance(a, int) and isinstance(b, int):
            return a - b
        if isinstance(b, int) and b == 0:
            return a
        return simp(self.A.mk(a) - self.A.mk(b))

    def tree_get(self, st, tree, path):
        for idx, p in enumerate(path):
            if isinstance(tree, Bytes):
                return self.select(st, tree.arr, p)
            if not isinstance(p, int):
                raise Unsupported("symbolic index into non-byte aggregate (should have been concretised)")
            if isinstance(tree, Opaque):
                return Opaque(tree.what)
            tree = tree[p]
        return tree

    def tree_set(self, tree, path, val):
        if not path:
            return val
        p = path[0]
        if isinstance(tree, Bytes):
            if len(path) != 1:
                raise Unsupported("deep path into bytes")
            return Bytes(AStore(tree.arr, p, val), tree.n)
        if isinstance(tree, Opaque):
            return tree
        if not isinstance(p, int):
            raise Unsupported("symbolic index store into non-byte aggregate")
        lst = list(tree)
        lst[p] = self.tree_set(tree[p], path[1:], val)
        return StructV(lst)

    def load(self, st, ptr):
        if ptr is None:
            raise self.panic(st, "nil dereference")
        if ptr.obj not in st.heap:
            raise Unsupported("load from unknown object %s" % ptr.obj)
        return self.tree_get(st, st.heap[ptr.obj], ptr.path)

    def store(self, st, ptr, val):
        if ptr is None:
            raise self.panic(st, "nil dereference")
        if ptr.obj in st.ghost.get("bs_released", ()):
            raise GoPanic("write to pooled memory after it was returned with byteslice.Put")
        if ptr.obj in st.ghost.get("rb_released", ()):
            raise GoPanic("write to a ring buffer after it was returned to the ring-buffer pool")
        st.heap[ptr.obj] = self.tree_set(st.heap[ptr.obj], ptr.path, val)

    def sym_positions(self, st, ptr):
        """positions in ptr.path that are symbolic and index a non-byte aggregate; returns list of (pos, length)"""
        out = []
        tree = st.heap.get(ptr.obj)
        for i, p in enumerate(ptr.path):
            if isinstance(tree, Bytes) or isinstance(tree, Opaque):
                break
            if not isinstance(p, int):
                out.append((i, len(tree)))
                return out  # one at a time
            tree = tree[p]
        return out

    # ------------------------------------------------------------------ panics / violations
    def panic(self, st, what):
        """runtime panic on the current path: recorded by the caller of run loop"""
        return GoPanic(what)

    def pos(self, st):
        if not st.frames:
            return ""
        fr = st.frames[-1]
        return "%s@%s" % (fr.fn["name"].split("/")[-1], getattr(fr, "_pos", ""))

    # ------------------------------------------------------------------ operand evaluation
    def const_val(self, c):
        tid = c["t"]
        t = self.p.U(tid)
        if "hex" in c:
            data = bytes.fromhex(c["hex"])
            return ("strconst", data)
        v = c.get("v")
        if v is None:
            return self.zero(tid) if t["k"] not in ("basic",) else None
        if isinstance(v, bool):
            return v
        if t["k"] == "basic" and t["bk"] in BK_FLOAT or c.get("float"):
            try:
                return ("float", v)
            except Exception:
                raise Unsupported("float const")
        ii = self.p.intinfo(tid)
        iv = int(v)
        if ii:
            return norm(iv, ii[0], ii[1])
        return iv

    def val(self, st, fr, o):
        if o is None:
            return None
        k = o["k"]
        if k == "local":
            try:
                return fr.locals[o["n"]]
            except KeyError:
                raise Unsupported("undefined local %s in %s" % (o["n"], fr.fn["name"]))
        if k == "const":
            v = self.const_val(o)
            if isinstance(v, tuple) and len(v) == 2 and v[0] == "strconst":
                return self.str_const(st, v[1])
            return v
        if k == "global":
            return self.global_ptr(st, o["n"])
        if k == "func":
            return Closure(o["n"])
        if k == "builtin":
            return Builtin(o["n"])
        raise Unsupported("operand kind " + k)

    def str_const(self, st, data):
        key = "str:" + data.hex()
        if key not in st.heap:
            st.heap[key] = Bytes(AConst(data), len(data))
        return SliceV(Ptr(key, ()), 0, len(data), len(data), True)

    def global_ptr(self, st, name):
        key = "g:" + name
        if key not in st.heap:
            g = self.p.globals.get(name)
            if g is None:
                # global of a package we never dumped: opaque
                st.heap[key] = Opaque(name)
            else:
                et = self.p.T(g["t"])["elem"]
                try:
                    zv = self.zero(et)
                except Unsupported:
                    zv = Opaque(name)
                if not self.init_allowed(g.get("pkg", "")) and not name.endswith("init$guard"):
                    # the package initialiser is not executed: the variable's value is unknown, never "zero"
                    zv = Opaque(name)
                if self.p.T(et)["k"] == "named" and self.p.U(et)["k"] == "iface" or self.p.T(et)["k"] == "iface":
                    # error-like sentinel of a package whose init is not executed: opaque distinct identity
                    if not self.init_allowed(g.get("pkg", "")):
                        zv = Iface("opaque", name)
                st.heap[key] = zv
        return Ptr(key, ())

    exec_init_pkgs = set()

    def init_allowed(self, pk):
        if pk in ("io",):
            return True
        if pk.startswith("github.com/panjf2000/gnet/v2") and not pk.endswith(("/pkg/logging", "/pkg/pool/goroutine", "/pkg/pool/bytebuffer")):
            return True
        return pk in self.cfg.get("extra_init_pkgs", [])

    # ------------------------------------------------------------------ running
    def run_inits(self, st, pkgs):
        """execute package initialisers concretely (deterministic), in the order given"""
        for pk in pkgs:
            pass
        for pk in pkgs:
            fn = self.p.funcs.get(pk + ".init")
            if fn is None:
                continue
            gp = self.global_ptr(st, pk + ".init$guard")
            if self.load(st, gp) is True:
                continue
            fr = Frame(fn)
            st.frames.append(fr)
            res = self.explore(st, init_mode=True)
            if len(res) != 1:
                raise Unsupported("init of %s did not complete on exactly one path: %s" % (pk, self.inconclusive[-3:]))
            st = res[0]
        return st

    def start(self, fname, base_state=None):
        st = base_state.clone() if base_state else State()
        fn = self.p.funcs[fname]
        fr = Frame(fn)
        st.frames.append(fr)
        return st

    def explore(self, st0, init_mode=False):
        """DFS over paths from st0. Returns list of final states when init_mode, else records results.
        Sub-trees are handed to forked child processes while CPU slots are free."""
        work = [st0]
        finals = []
        children = []
        base_depth = len(st0.frames) - 1 if init_mode else 0
        par = (not init_mode) and self.slots is not None
        if par and self._child_out is None and not self._delegated:
            # the top-level process of a harness only waits: the whole exploration runs in a child that takes over
            # this process's CPU slot, so that a stalled solver call can be abandoned without losing the harness
            self._delegated = True
            self.collect(*self.spawn(st0))
            with self.slots.get_lock():
                self.slots.value += 1   # the child gave the slot back; this process's caller releases it again
            return finals
        while work:
            if par and len(work) >= 2:
                while len(work) >= 2 and self.acquire_slot():
                    children.append(self.spawn(work.pop(0)))
            st = work.pop()
            if self.stats.paths > self.path_limit:
                self.inconclusive.append("path limit exceeded")
                break
            try:
                succ = self.run_path(st, base_depth)
            except PathEnd:
                succ = []
            if succ is None:
                self.stats.paths_done += 1
                if st.nbranch > 0:
                    self.stats.nontrivial_paths += 1
                if init_mode:
                    finals.append(st)
                else:
                    self.on_path_end(st)
            else:
                work.extend(reversed(succ))
            if self.stop_on_first and self.violations:
                break
        for pid, path in children:
            self.collect(pid, path)
        return finals

    _delegated = False
    slots = None      # multiprocessing.Value shared by all workers (number of busy processes)
    max_procs = 16

    def acquire_slot(self):
        with self.slots.get_lock():
            if self.slots.value < self.max_procs:
                self.slots.value += 1
                return True
        return False

    def release_slot(self):
        with self.slots.get_lock():
            self.slots.value -= 1

    def spawn(self, st):
        import os
        import tempfile
        fd, path = tempfile.mkstemp(prefix="symgo_child_", suffix=".json", dir=self.cfg.get("tmpdir"))
        os.close(fd)
        pid = os.fork()
        if pid != 0:
            return (pid, path)
        # ---- child
        code = 0
        _die_with_parent()
        self._child_out = path
        try:
            self.stats = Stats()
            self.violations = []
            self.inconclusive = []
            self.explore(st)
            out = {"stats": self.stats.to_dict(), "violations": [v.asdict() for v in self.violations], "inconclusive": self.inconclusive}
            with open(path, "w") as f:
                json.dump(out, f, default=str)
        except BaseException as e:  # noqa
            import traceback
            try:
                with open(path, "w") as f:
                    json.dump({"error": "%s: %s\n%s" % (type(e).__name__, e, traceback.format_exc())}, f)
            except Exception:
                pass
            code = 1
        finally:
            try:
                self.release_slot()
            finally:
                os._exit(code)

    def collect(self, pid, path):
        import os
        os.waitpid(pid, 0)
        try:
            d = json.load(open(path))
        except Exception as e:
            self.inconclusive.append("child process produced no result: %s" % e)
            return
        finally:
            try:
                os.unlink(path)
            except OSError:
                pass
        if "error" in d:
            self.inconclusive.append("child process error: " + d["error"][:2000])
            return
        self.stats.merge(d["stats"])
        for v in d["violations"]:
            self.violations.append(Violation(v["kind"], v["label"], v["pos"], v["tape"], v.get("detail", "")))
        self.inconclusive.extend(d["inconclusive"])

    def on_path_end(self, st):
        k = self.cfg.get("witness_paths", 0)
        if k and len(self.stats.witnesses) < k and st.nbranch > 0:
            # translator validation: a concrete input that drives exactly this (passing) path; the native run of the
            # same harness on it must agree (no tape mismatch, no failed assumption, no assertion failure, no panic)
            m = self.model_for(st)
            if m is not None:
                self.stats.witnesses.append(self.tape_from_model(st, m))
        self._on_path_end_samples(st)

    def _on_path_end_samples(self, st):
        if len(self.stats.samples) < 3 and st.nbranch > 0:
            self.stats.samples.append({
                "path_condition_size": len(st.pc),
                "events": st.events[-12:],
                "nondet": [e["name"] for e in st.tape][:24],
            })

    def run_path(self, st, base_depth=0):
        """run st until it finishes (returns None) or forks (returns list of states)"""
        while True:
            if len(st.frames) <= base_depth:
                return None
            fr = st.frames[-1]
            blk = fr.fn["_blocks"][fr.block]
            ins = blk["instrs"][fr.ip]
            fr.ip += 1
            try:
                r = self.exec_instr(st, fr, ins)
            except GoPanic as gp:
                r = self.handle_panic(st, gp, ins)
            except Unsupported as u:
                self.inconclusive.append("unsupported: %s at %s %s" % (u, fr.fn["name"], ins.get("pos", "")))
                raise PathEnd()
            if self._extra:
                extras, self._extra = self._extra, []
                r = ([st] if r is None else list(r)) + extras
            if r is not None:
                return r

    def handle_panic(self, st, gp, ins):
        """returns None when the panic was caught by a vPanics frame (state continues); otherwise records and ends the path"""
        where = "%s %s" % (st.frames[-1].fn["name"].split("/")[-1], (ins or {}).get("pos", ""))
        st.events.append("panic: %s at %s" % (gp.what, where))
        for i in range(len(st.frames) - 1, -1, -1):
            if st.frames[i].catch:
                rn = st.frames[i].retname
                del st.frames[i:]
                if rn:
                    st.frames[-1].locals[rn] = True
                return None
        m = self.model_for(st)
        tape = self.tape_from_model(st, m) if m is not None else None
        self.violations.append(Violation("panic", gp.what, where, tape, detail="; ".join(st.events[-6:])))
        raise PathEnd()

    def fork(self, st, alts, apply, complementary=False):
        """alts: list of (cond, payload). Returns successor states (feasible ones)."""
        out = []
        live = []
        for cond, payload in alts:
            cond = simp(cond) if is_sym(cond) else cond
            if cond is False:
                continue
            live.append((cond, payload))
        if len(live) == 1 and live[0][0] is True:
            apply(st, live[0][1])
            return None
        n = 0
        nunsat = 0
        for idx, (cond, payload) in enumerate(live):
            if cond is not True:
                if complementary and idx == len(live) - 1 and nunsat == len(live) - 1:
                    r = "sat"   # pc is satisfiable and every other alternative is infeasible
                else:
                    r = self.check(st, cond)
                if r == "unsat":
                    nunsat += 1
                    continue
            s2 = st.clone()
            if cond is not True:
                s2.pc.append(cond)
                s2.nbranch += 1
                s2.nforks += 1
            try:
                apply(s2, payload)
            except GoPanic as gp:
                try:
                    self.handle_panic(s2, gp, {"pos": ""})
                except PathEnd:
                    continue
            except PathEnd:
                continue
            out.append(s2)
            n += 1
        self.stats.paths += max(0, n - 1)
        return out

    # ------------------------------------------------------------------ instruction semantics
    def set(self, fr, ins, v):
        fr.locals[ins["name"]] = v

    def exec_instr(self, st, fr, ins):
        op = ins["op"]
        h = getattr(self, "i_" + op, None)
        if h is None:
            raise Unsupported("instruction " + op)
        return h(st, fr, ins)

    def i_Alloc(self, st, fr, ins):
        et = self.p.T(ins["t"])["elem"]
        self.set(fr, ins, self.alloc(st, self.zero(et), "a"))

    def i_Jump(self, st, fr, ins):
        self.goto(st, fr, fr.fn["_blocks"][fr.block]["succs"][0])

    def goto(self, st, fr, b):
        fr.prev = fr.block
        fr.block = b
        fr.ip = 0
        n, last = fr.visits.get(b, (0, -1))
        tot = fr.visits.get(("tot", b), 0) + 1
        fr.visits[("tot", b)] = tot
        if tot > 200000:
            raise Unsupported("concrete loop too long")
        if st.nforks != last:
            n += 1   # only iterations that involved a symbolic path split count against the unwinding bound
        fr.visits[b] = (n, st.nforks)
        if n > self.stats.max_unwind:
            self.stats.max_unwind = n
        if n > self.unwind + 1:
            # a further iteration is feasible on this path (branches are pruned) -> unwinding bound hit
            key = "%s#%d" % (fr.fn["name"], b)
            if fr.fn["name"] in self.unwind_assume or st.ghost.get("unwind_assume"):
                st.events.append("unwind-assumed " + key)
                raise PathEnd()
            self.stats.unwind_exceeded.append(key)
            self.inconclusive.append("unwinding bound %d exceeded at %s" % (self.unwind, key))
            raise PathEnd()
        # phis: evaluate all simultaneously
        blk = fr.fn["_blocks"][b]
        pi = blk["preds"].index(fr.prev)
        newv = {}
        for ins in blk["instrs"]:
            if ins["op"] != "Phi":
                break
            newv[ins["name"]] = self.val(st, fr, ins["edges"][pi])
            fr.ip += 1
        fr.locals.update(newv)

    def i_Phi(self, st, fr, ins):
        raise Unsupported("phi outside block head")

    def i_If(self, st, fr, ins):
        c = self.val(st, fr, ins["cond"])
        succs = fr.fn["_blocks"][fr.block]["succs"]
        if is_sym(c):
            c = simp(c)
        if c is True:
            return self.goto(st, fr, succs[0])
        if c is False:
            return self.goto(st, fr, succs[1])

        from .merge import try_merge_if
        if try_merge_if(self, st, fr, ins, c):
            return None

        def app(s2, tgt):
            self.goto(s2, s2.frames[-1], tgt)
        return self.fork(st, [(c, succs[0]), (z3.Not(c), succs[1])], app, complementary=True)

    def i_Return(self, st, fr, ins):
        vals = [self.val(st, fr, r) for r in ins["results"]]
        rv = vals[0] if len(vals) == 1 else (tuple(vals) if vals else None)
        self.do_return(st, rv)

    def do_return(self, st, rv):
        fr = st.frames.pop()
        if fr.catch:
            rv = False
        if st.frames and fr.retname is not None:
            st.frames[-1].locals[fr.retname] = rv
        st.ghost["_lastret"] = rv

    def i_RunDefers(self, st, fr, ins):
        if fr.defers:
            d = fr.defers.pop()
            fr.ip -= 1  # come back here until no defers remain
            fnv, args = d
            return self.call_value(st, fr, fnv, args, None, ins)

    def i_Defer(self, st, fr, ins):
        c = ins["call"]
        if c.get("invoke"):
            recv = self.val(st, fr, c["recv"])
            args = [self.val(st, fr, a) for a in c["args"]]
            fnv = ("invoke", recv, c["method"])
        else:
            fnv = self.val(st, fr, c["fn"])
            args = [self.val(st, fr, a) for a in c["args"]]
        fr.defers.append((fnv, args))

    def i_Go(self, st, fr, ins):
        c = ins["call"]
        h = self.intrinsics.get("go")
        if h:
            return h(self, st, fr, ins)
        raise Unsupported("go statement")

    def i_Panic(self, st, fr, ins):
        v = self.val(st, fr, ins["x"])
        msg = "explicit panic"
        if isinstance(v, Iface) and isinstance(v.val, SliceV) and v.val.ptr is not None:
            b = st.heap.get(v.val.ptr.obj)
            if isinstance(b, Bytes) and isinstance(b.arr, AConst):
                msg = "panic: " + b.arr.data.decode("utf8", "replace")
        raise GoPanic(msg)

    def i_Call(self, st, fr, ins):
        c = ins["call"]
        if c.get("invoke"):
            recv = self.val(st, fr, c["recv"])
            args = [self.val(st, fr, a) for a in c["args"]]
            return self.call_value(st, fr, ("invoke", recv, c["method"]), args, ins["name"], ins)
        fnv = self.val(st, fr, c["fn"])
        args = [self.val(st, fr, a) for a in c["args"]]
        return self.call_value(st, fr, fnv, args, ins["name"], ins)

    def call_value(self, st, fr, fnv, args, retname, ins):
        if isinstance(fnv, tuple) and fnv[0] == "invoke":
            recv, mname = fnv[1], fnv[2]
            if recv is None:
                raise GoPanic("nil interface method call ." + mname)
            if isinstance(recv, Opaque):
                self.stats.stubs.add("%s.%s [opaque method]" % (recv.what, mname))
                return self.finish_stub(st, fr, self.opaque_result(st, recv.what + "." + mname, ins), retname)
            if not isinstance(recv, Iface):
                raise Unsupported("invoke on non-interface %r" % (recv,))
            if recv.tid == "opaque":
                h = self.stubs.get("opaque." + mname)
                if h is None:
                    raise Unsupported("method %s on opaque %s" % (mname, recv.val))
                return self.finish_stub(st, fr, h(self, st, [recv] + args, ins), retname)
            ms = self.p.methods.get(str(recv.tid), {})
            fname = ms.get(mname)
            if fname is None:
                raise Unsupported("no method %s for type %s" % (mname, self.p.tname(recv.tid)))
            return self.call_fn(st, fr, fname, [recv.val] + args, (), retname, ins)
        if isinstance(fnv, Builtin):
            r = self.builtin(st, fr, fnv.name, args, ins)
            return self.finish_stub(st, fr, r, retname)
        if isinstance(fnv, Closure):
            return self.call_fn(st, fr, fnv.fn, args, fnv.binds, retname, ins)
        if fnv is None:
            raise GoPanic("call of nil function")
        raise Unsupported("call of %r" % (fnv,))

    def finish_stub(self, st, fr, r, retname):
        if isinstance(r, ForkResult):
            def app(s2, v):
                if isinstance(v, tuple) and len(v) == 2 and v[0] == "call":
                    # alternative that continues by calling a Go function (e.g. sync.Pool.New)
                    self.call_fn(s2, s2.frames[-1], v[1].fn, [], v[1].binds, retname, None)
                    return
                if callable(v):
                    v = v(s2)
                if retname:
                    s2.frames[-1].locals[retname] = v
            return self.fork(st, r.alts, app)
        if isinstance(r, CallInstead):
            x = self.call_fn(st, fr, r.fn, r.args, r.binds, retname, None)
            if r.catch:
                st.frames[-1].catch = True
            return x
        if retname:
            fr.locals[retname] = r
        return None

    def call_fn(self, st, fr, fname, args, binds, retname, ins):
        h = self.stubs.get(fname)
        if h is None:
            short = fname.rsplit(".", 1)[-1] if "." in fname else fname
            if short.startswith("v") and short in self.intrinsics:
                h = self.intrinsics[short]
        if h is None and fname.startswith("(*sync/atomic.Pointer["):
            h = self.stub_prefixes["(*sync/atomic.Pointer["].get(fname.rsplit(".", 1)[-1].split("[")[0])
        if h is not None:
            self.stats.stubs.add(fname)
            return self.finish_stub(st, fr, h(self, st, args, ins), retname)
        fn = self.p.funcs.get(fname)
        if fname.endswith(".init") and not fname.startswith("(") and not self.init_allowed(fname[:-5]):
            return None
        if fn is None:
            for pre in self.cfg.get("opaque_calls", ()):
                if fname.startswith(pre) or fname.startswith("(*" + pre) or fname.startswith("(" + pre):
                    self.stats.stubs.add(fname + " [opaque]")
                    return self.finish_stub(st, fr, self.opaque_result(st, fname, ins), retname)
            raise Unsupported("call to external function without stub: " + fname)
        if self._region is None:
            from .merge import try_pure_call
            ok, v = try_pure_call(self, st, fname, args)
            if ok:
                if retname:
                    fr.locals[retname] = v
                return None
        self.stats.funcs.add(fname)
        if len(st.frames) > 200:
            raise Unsupported("call depth")
        if len(st.frames) > 24 and sum(1 for f in st.frames if f.fn is fn) > 6:
            # runaway recursion (e.g. a handler that re-enters close from OnClose without bound): not explored further
            raise Unsupported("recursion deeper than 6 activations of " + fname)
        nf = Frame(fn, retname)
        for p, a in zip(fn["params"], args):
            nf.locals[p["n"]] = a
        for p, b in zip(fn["freevars"], binds):
            nf.locals[p["n"]] = b
        st.frames.append(nf)
        return None

    def opaque_result(self, st, fname, ins):
        """environment call that the property does not depend on (logging, context, errgroup...): no effect on modelled
        memory; scalar results are fresh unconstrained symbols, everything else an opaque non-nil value"""
        sig = self.p.T(ins["call"]["sig"]) if ins and "call" in ins else None
        if sig is None:
            return None   # deferred call: results are discarded
        outs = []
        for rt in sig["results"]:
            ii = self.p.intinfo(rt)
            ut = self.p.U(rt)
            if ii:
                v = self.A.fresh(self.fresh_name("opaque"), ii[0], ii[1])
                c = self.A.range_constraint(v, ii[0], ii[1])
                if c is not True:
                    st.pc.append(c)
                outs.append(v)
            elif ut["k"] == "basic" and ut["bk"] in BK_BOOL:
                outs.append(z3.Bool(self.fresh_name("opaque")))
            elif ut["k"] == "basic" and ut["bk"] in BK_STRING:
                outs.append(self.str_const(st, b"<opaque>"))
            else:
                outs.append(Opaque(fname))
        if not outs:
            return None
        return outs[0] if len(outs) == 1 else tuple(outs)

    # --- data instructions
    def i_BinOp(self, st, fr, ins):
        x = self.val(st, fr, ins["x"])
        y = self.val(st, fr, ins["y"])
        r = self.binop(st, ins["binop"], x, y, ins["xt"], ins)
        self.set(fr, ins, r)

    def binop(self, st, op, x, y, xt, ins):
        ut = self.p.U(xt)
        k = ut["k"]
        if k == "basic":
            bk = ut["bk"]
            ii = BASIC_INT.get(bk)
            if ii:
                bits, signed = ii
                if op in ("==", "!=", "<", "<=", ">", ">="):
                    return self.A.cmp(op, x, y, signed)
                if op in ("/", "%"):
                    z = self.A.cmp("==", y, 0)
                    if z is True:
                        raise GoPanic("integer divide by zero")
                    if z is not False and self._region is not None:
                        raise Unsupported("division inside merged region")
                    if z is not False:
                        r = self.check(st, z)
                        if r != "unsat":
                            s2 = st.clone()
                            s2.pc.append(z)
                            try:
                                self.handle_panic(s2, GoPanic("integer divide by zero"), ins)
                                self._extra.append(s2)
                            except PathEnd:
                                pass
                        st.pc.append(z3.Not(z))
                if op == "%" and not self.bv and is_sym(y) and self._region is None:
                    # cursor wrap-around idiom (a+b) % size: if 0 <= x < 2y is valid here, the result is linear
                    X, Y = self.A.mk(x), self.A.mk(y)
                    lin = z3.And(X >= 0, Y > 0, X - Y < Y)
                    if self.check(st, z3.Not(lin)) == "unsat":
                        return simp(z3.If(X < Y, X, X - Y))
                if op in ("<<", ">>"):
                    # shift count may have a different type; negative signed count panics (not modelled: counts are unsigned or constant here)
                    pass
                return self.A.binop(op, x, y, bits, signed)
            if bk in BK_BOOL:
                if op == "==":
                    return self.beq(x, y)
                if op == "!=":
                    return bnot(self.beq(x, y))
                if op == "&&" or op == "&":
                    return band(x, y)
                if op == "||" or op == "|":
                    return bor(x, y)
            if bk in BK_STRING:
                if op == "+":
                    return self.str_concat(st, x, y)
                if op in ("==", "!="):
                    e = self.str_eq(st, x, y)
                    return e if op == "==" else bnot(e)
                raise Unsupported("string op " + op)
            if bk == BK_UNSAFEPTR:
                e = self.val_eq(st, x, y, xt)
                return e if op == "==" else bnot(e)
            if bk in BK_FLOAT:
                raise Unsupported("float arithmetic")
        if op in ("==", "!="):
            e = self.val_eq(st, x, y, xt)
            return e if op == "==" else bnot(e)
        raise Unsupported("binop %s on %s" % (op, ut.get("s")))

    def beq(self, x, y):
        if isinstance(x, bool) and isinstance(y, bool):
            return x == y
        if isinstance(x, bool):
            return y if x else bnot(y)
        if isinstance(y, bool):
            return x if y else bnot(x)
        return simp(x == y)

    def val_eq(self, st, x, y, tid):
        ut = self.p.U(tid)
        k = ut["k"]
        if k in ("ptr", "map", "chan", "sig") or (k == "basic" and ut["bk"] == BK_UNSAFEPTR):
            return self.ptr_eq(x, y)
        if k == "slice":
            # only comparison with nil is legal
            s = x if y is None or (isinstance(y, SliceV) and y.ptr is None and x is not y) else y
            o = y if s is x else x
            if isinstance(s, SliceV):
                return s.ptr is None
            return s is None
        if k == "iface":
            if x is None or y is None:
                return x is None and y is None
            if x.tid != y.tid:
                return False
            if x.tid == "opaque":
                return x.val == y.val
            return self.val_eq(st, x.val, y.val, x.tid)
        if k == "struct":
            cs = [self.val_eq(st, a, b, f["t"]) for a, b, f in zip(x, y, ut["fields"])]
            return band(*cs)
        if k == "array":
            if isinstance(x, Bytes):
                cs = [self.A.cmp("==", self.select(st, x.arr, i), self.select(st, y.arr, i)) for i in range(ut["len"])]
                return band(*cs)
            cs = [self.val_eq(st, a, b, ut["elem"]) for a, b in zip(x, y)]
            return band(*cs)
        if k == "basic":
            return self.binop(st, "==", x, y, tid, None)
        raise Unsupported("equality on " + ut.get("s", k))

    def val_eq_iface(self, st, x, y):
        if x is None or y is None:
            return x is None and y is None
        if x.tid != y.tid:
            return False
        if x.tid == "opaque":
            return x.val == y.val
        return self.val_eq(st, x.val, y.val, x.tid)

    def ptr_eq(self, x, y):
        if x is None or y is None:
            return x is None and y is None
        if isinstance(x, Ptr) and isinstance(y, Ptr):
            if x.obj != y.obj or len(x.path) != len(y.path):
                return False
            cs = [self.A.cmp("==", a, b) for a, b in zip(x.path, y.path)]
            return band(*cs)
        if isinstance(x, MapRef) and isinstance(y, MapRef):
            return x.obj == y.obj
        if isinstance(x, Closure) and isinstance(y, Closure):
            return x.fn == y.fn
        return x is y

    def str_bytes(self, st, s):
        """concrete content of a string value if known, else None"""
        if s.ptr is None:
            return b"" if (isinstance(s.len, int) and s.len == 0) else None
        b = self.load(st, s.ptr)
        if isinstance(b, Bytes) and isinstance(b.arr, AConst) and isinstance(s.off, int) and isinstance(s.len, int):
            return b.arr.data[s.off:s.off + s.len]
        return None

    def str_eq(self, st, x, y):
        bx, by = self.str_bytes(st, x), self.str_bytes(st, y)
        if bx is not None and by is not None:
            return bx == by
        if bx is None and by is None:
            if x.ptr is not None and y.ptr is not None and x.ptr.key() == y.ptr.key():
                if self.A.cmp("==", x.off, y.off) is True:
                    return self.A.cmp("==", x.len, y.len)
            # general: need bounded length
            raise Unsupported("equality of two symbolic strings")
        if bx is None:
            x, y, bx, by = y, x, by, bx
        # x concrete (bx), y symbolic
        cs = [self.A.cmp("==", y.len, len(bx))]
        if y.ptr is not None:
            arr = self.load(st, y.ptr).arr
            for i, ch in enumerate(bx):
                cs.append(self.A.cmp("==", self.select(st, arr, self.add(y.off, i)), ch))
        elif len(bx) > 0:
            return False
        return band(*cs)

    def str_concat(self, st, x, y):
        n = self.add(x.len, y.len)
        arr = AZero()
        if x.ptr is not None:
            arr = ACopy(arr, 0, self.load(st, x.ptr).arr, x.off, x.len)
        if y.ptr is not None:
            arr = ACopy(arr, x.len, self.load(st, y.ptr).arr, y.off, y.len)
        bx, by = self.str_bytes(st, x), self.str_bytes(st, y)
        if bx is not None and by is not None:
            return self.str_const(st, bx + by)
        p = self.alloc(st, Bytes(arr, n), "s")
        return SliceV(p, 0, n, n, True)

    def i_UnOp(self, st, fr, ins):
        x = self.val(st, fr, ins["x"])
        op = ins["unop"]
        if op == "*":
            if x is None:
                raise GoPanic("nil pointer dereference")
            if isinstance(x, Opaque):
                self.set(fr, ins, Opaque("deref"))
                return
            sp = self.sym_positions(st, x)
            if sp:
                pos, n = sp[0]
                alts = [(self.A.cmp("==", x.path[pos], i), Ptr(x.obj, x.path[:pos] + (i,) + x.path[pos + 1:])) for i in range(n)]
                return self.fork(st, alts, lambda s2, p: s2.frames[-1].locals.__setitem__(ins["name"], self.load(s2, p)))
            self.set(fr, ins, self.load(st, x))
            return
        if op == "!":
            self.set(fr, ins, bnot(x))
            return
        ii = self.p.intinfo(ins["t"])
        if op == "-":
            if ii is None:
                raise Unsupported("float negation")
            self.set(fr, ins, self.A.neg(x, *ii))
            return
        if op == "^":
            self.set(fr, ins, self.A.bitnot(x, *ii))
            return
        if op == "<-":
            r = self.chan_ready(st, x)
            if r is False:
                raise PathEnd()   # blocks forever
            et = ins["t"] if not ins["commaok"] else self.p.T(ins["t"])["elems"][0]
            v, ok = self.chan_take(st, x, self.zero(et))
            self.set(fr, ins, (v, ok) if ins["commaok"] else v)
            return
        raise Unsupported("unop " + op)

    def i_Store(self, st, fr, ins):
        a = self.val(st, fr, ins["addr"])
        v = self.val(st, fr, ins["val"])
        if a is None:
            raise GoPanic("nil pointer dereference (store)")
        if isinstance(a, Opaque):
            return
        sp = self.sym_positions(st, a)
        if sp:
            pos, n = sp[0]
            alts = [(self.A.cmp("==", a.path[pos], i), Ptr(a.obj, a.path[:pos] + (i,) + a.path[pos + 1:])) for i in range(n)]
            return self.fork(st, alts, lambda s2, p: self.store(s2, p, v))
        self.store(st, a, v)

    def i_FieldAddr(self, st, fr, ins):
        x = self.val(st, fr, ins["x"])
        if x is None:
            raise GoPanic("nil pointer dereference (field address)")
        if isinstance(x, Opaque):
            self.set(fr, ins, x)
            return
        self.set(fr, ins, Ptr(x.obj, x.path + (ins["field"],)))

    def i_Field(self, st, fr, ins):
        x = self.val(st, fr, ins["x"])
        if isinstance(x, Opaque):
            self.set(fr, ins, x)
            return
        self.set(fr, ins, x[ins["field"]])

    def bounds_check(self, st, ok, what, ins):
        """ok: condition that must hold, else runtime panic"""
        ok = simp(ok) if is_sym(ok) else ok
        if ok is True:
            return
        if self._region is not None:
            self._region[0].obligs.append((self._region[1], ok, what))
            return
        if ok is False:
            raise GoPanic(what)
        bad = z3.Not(ok)
        r = self.check(st, bad)
        if r != "unsat":
            s2 = st.clone()
            s2.pc.append(bad)
            if r == "unknown":
                self.inconclusive.append("unknown on bounds check " + what)
            else:
                try:
                    self.handle_panic(s2, GoPanic(what), ins)
                    s2.nbranch += 1
                    s2.nforks += 1
                    self._extra.append(s2)   # caught by vPanics: the state lives on
                except PathEnd:
                    pass
        st.pc.append(ok)

    def i_IndexAddr(self, st, fr, ins):
        x = self.val(st, fr, ins["x"])
        i = self.val(st, fr, ins["index"])
        ut = self.p.U(ins["xt"])
        if ut["k"] == "slice":
            if x.ptr is None:
                raise GoPanic("index out of range (nil slice)")
            self.bounds_check(st, band(self.A.cmp("<=", 0, i), self.A.cmp("<", i, x.len)), "index out of range", ins)
            self.set(fr, ins, Ptr(x.ptr.obj, x.ptr.path + (self.add(x.off, i),)))
            return
        # pointer to array
        if x is None:
            raise GoPanic("nil pointer dereference (index)")
        n = self.p.U(ut["elem"])["len"]
        self.bounds_check(st, band(self.A.cmp("<=", 0, i), self.A.cmp("<", i, n)), "index out of range", ins)
        self.set(fr, ins, Ptr(x.obj, x.path + (i,)))

    def i_Index(self, st, fr, ins):
        x = self.val(st, fr, ins["x"])
        i = self.val(st, fr, ins["index"])
        ut = self.p.U(ins["xt"])
        if ut["k"] == "basic":  # string
            self.bounds_check(st, band(self.A.cmp("<=", 0, i), self.A.cmp("<", i, x.len)), "string index out of range", ins)
            arr = self.load(st, x.ptr).arr
            self.set(fr, ins, self.select(st, arr, self.add(x.off, i)))
            return
        if ut["k"] == "array":
            n = ut["len"]
            self.bounds_check(st, band(self.A.cmp("<=", 0, i), self.A.cmp("<", i, n)), "index out of range", ins)
            if isinstance(x, Bytes):
                self.set(fr, ins, self.select(st, x.arr, i))
                return
            if isinstance(i, int):
                self.set(fr, ins, x[i])
                return
            alts = [(self.A.cmp("==", i, k), x[k]) for k in range(n)]
            return self.fork(st, alts, lambda s2, v: s2.frames[-1].locals.__setitem__(ins["name"], v))
        raise Unsupported("Index on " + ut["k"])

    def i_Slice(self, st, fr, ins):
        x = self.val(st, fr, ins["x"])
        lo = self.val(st, fr, ins["low"]) if ins["low"] else 0
        hi = self.val(st, fr, ins["high"]) if ins["high"] else None
        mx = self.val(st, fr, ins["max"]) if ins["max"] else None
        ut = self.p.U(ins["xt"])
        if ut["k"] == "ptr":  # pointer to array
            if x is None:
                raise GoPanic("nil pointer dereference (slice of array)")
            n = self.p.U(ut["elem"])["len"]
            base = SliceV(x, 0, n, n)
        elif ut["k"] == "basic":
            base = x
        else:
            base = x
        isstr = base.isstr
        cap = base.len if isstr else base.cap
        if hi is None:
            hi = base.len
        if mx is None:
            mx = cap
        ok = band(self.A.cmp("<=", 0, lo), self.A.cmp("<=", lo, hi), self.A.cmp("<=", hi, mx), self.A.cmp("<=", mx, cap))
        self.bounds_check(st, ok, "slice bounds out of range", ins)
        if base.ptr is None:
            self.set(fr, ins, SliceV(None, 0, 0, 0, isstr))
            return
        nl = self.sub(hi, lo)
        nc = self.sub(mx, lo)
        self.set(fr, ins, SliceV(base.ptr, self.add(base.off, lo), nl, nc, isstr))

    def i_MakeSlice(self, st, fr, ins):
        n = self.val(st, fr, ins["len"])
        c = self.val(st, fr, ins["cap"])
        et = self.p.U(ins["t"])["elem"]
        self.bounds_check(st, band(self.A.cmp("<=", 0, n), self.A.cmp("<=", n, c)), "makeslice: len out of range", ins)
        if self.p.is_byte_elem(et):
            p = self.alloc(st, Bytes(AZero(), c), "b")
            self.set(fr, ins, SliceV(p, 0, n, c))
            return
        if not isinstance(c, int):
            raise Unsupported("make of non-byte slice with symbolic capacity")
        z = self.zero(et)
        p = self.alloc(st, StructV([z] * c), "l")
        self.set(fr, ins, SliceV(p, 0, n, c))

    def i_MakeInterface(self, st, fr, ins):
        x = self.val(st, fr, ins["x"])
        self.set(fr, ins, Iface(ins["xt"], x))

    def i_ChangeInterface(self, st, fr, ins):
        self.set(fr, ins, self.val(st, fr, ins["x"]))

    def i_ChangeType(self, st, fr, ins):
        self.set(fr, ins, self.val(st, fr, ins["x"]))

    def i_MakeClosure(self, st, fr, ins):
        f = self.val(st, fr, ins["fn"])
        self.set(fr, ins, Closure(f.fn, [self.val(st, fr, b) for b in ins["bindings"]]))

    def i_Extract(self, st, fr, ins):
        x = self.val(st, fr, ins["x"])
        self.set(fr, ins, x[ins["index"]])

    def i_Convert(self, st, fr, ins):
        x = self.val(st, fr, ins["x"])
        ft, tt = self.p.U(ins["xt"]), self.p.U(ins["t"])
        fi, ti = self.p.intinfo(ins["xt"]), self.p.intinfo(ins["t"])
        if fi and ti:
            self.set(fr, ins, self.A.convert(x, fi[0], fi[1], ti[0], ti[1]))
            return
        fk, tk = ft["k"], tt["k"]
        if tk == "basic" and tt["bk"] in BK_STRING:
            if fk == "slice":  # string(bytes): copy
                n = x.len
                arr = AZero()
                if x.ptr is not None:
                    arr = ACopy(arr, 0, self.load(st, x.ptr).arr, x.off, n)
                p = self.alloc(st, Bytes(arr, n), "s")
                self.set(fr, ins, SliceV(p, 0, n, n, True))
                return
            if fk == "basic" and ft["bk"] in BK_STRING:
                self.set(fr, ins, x)
                return
            if fi and isinstance(x, int):
                self.set(fr, ins, self.str_const(st, chr(x).encode("utf8")))
                return
        if tk == "slice" and fk == "basic" and ft["bk"] in BK_STRING:
            n = x.len
            arr = AZero()
            if x.ptr is not None:
                arr = ACopy(arr, 0, self.load(st, x.ptr).arr, x.off, n)
            p = self.alloc(st, Bytes(arr, n), "b")
            self.set(fr, ins, SliceV(p, 0, n, n))
            return
        if tk == "basic" and tt["bk"] == BK_UNSAFEPTR or fk == "basic" and ft["bk"] == BK_UNSAFEPTR:
            self.set(fr, ins, x)
            return
        if fk == "ptr" and tk == "ptr":
            self.set(fr, ins, x)
            return
        if (fi and tt["k"] == "basic" and tt["bk"] in BK_FLOAT) or (ti and ft["k"] == "basic" and ft["bk"] in BK_FLOAT):
            raise Unsupported("float conversion")
        raise Unsupported("convert %s -> %s" % (ft.get("s"), tt.get("s")))

    def i_TypeAssert(self, st, fr, ins):
        x = self.val(st, fr, ins["x"])
        at = ins["asserted"]
        aut = self.p.U(at)
        if aut["k"] == "iface":
            ok = x is not None
            if ok and x.tid != "opaque":
                ms = self.p.methods.get(str(x.tid), {})
                # we only know dumped methods; accept if all required are present OR unknown
                ok = all(m in ms for m in aut["methods"]) if aut["methods"] else True
            elif ok:
                ok = True
            res = x if ok else None
        else:
            ok = x is not None and x.tid != "opaque" and self.same_type(x.tid, at)
            res = x.val if ok else self.zero(at)
        if ins["commaok"]:
            self.set(fr, ins, (res, ok))
        else:
            if not ok:
                raise GoPanic("interface conversion failed")
            self.set(fr, ins, res)

    def same_type(self, a, b):
        return a == b

    def i_MakeMap(self, st, fr, ins):
        o = self.newobj("m")
        st.heap[o] = ()
        self.set(fr, ins, MapRef(o))

    def map_lookup_alts(self, st, m, key, kt):
        """alts of (cond, index or None)"""
        ents = st.heap[m.obj]
        alts = []
        nomatch = []
        for i, (k, v) in enumerate(ents):
            c = self.val_eq(st, k, key, kt)
            alts.append((band(c, *nomatch), i))
            nomatch.append(bnot(c))
        alts.append((band(*nomatch), None))
        return alts

    def i_Lookup(self, st, fr, ins):
        x = self.val(st, fr, ins["x"])
        key = self.val(st, fr, ins["index"])
        ut = self.p.U(ins["xt"])
        if ut["k"] == "basic":
            raise Unsupported("string lookup")
        vt = ut["elem"]
        zero = self.zero(vt)
        if x is None:
            self.set(fr, ins, (zero, False) if ins["commaok"] else zero)
            return
        alts = self.map_lookup_alts(st, x, key, ut["key"])

        def app(s2, i):
            ents = s2.heap[x.obj]
            v = ents[i][1] if i is not None else zero
            s2.frames[-1].locals[ins["name"]] = (v, i is not None) if ins["commaok"] else v
        return self.fork(st, alts, app)

    def i_MapUpdate(self, st, fr, ins):
        m = self.val(st, fr, ins["map"])
        key = self.val(st, fr, ins["key"])
        v = self.val(st, fr, ins["value"])
        if m is None:
            raise GoPanic("assignment to entry in nil map")
        mt = None
        alts = self.map_lookup_alts(st, m, key, self.map_key_type(fr, ins))

        def app(s2, i):
            ents = list(s2.heap[m.obj])
            if i is None:
                ents.append((key, v))
            else:
                ents[i] = (ents[i][0], v)
            s2.heap[m.obj] = tuple(ents)
        return self.fork(st, alts, app)

    def map_key_type(self, fr, ins):
        # find type of the map operand: search the defining instruction type is not available; use stored type on MapUpdate
        o = ins["map"]
        t = ins.get("mt")
        if t is not None:
            return self.p.U(t)["key"]
        # fallback: derive from local's defining instruction
        for b in fr.fn["blocks"]:
            for i2 in b["instrs"]:
                if i2.get("name") == o.get("n"):
                    return self.p.U(i2["t"])["key"]
        for p in fr.fn["params"] + fr.fn["freevars"]:
            if p["n"] == o.get("n"):
                return self.p.U(p["t"])["key"]
        raise Unsupported("map type")

    def i_Range(self, st, fr, ins):
        x = self.val(st, fr, ins["x"])
        ut = self.p.U(ins["xt"])
        if ut["k"] == "map":
            ents = st.heap[x.obj] if x is not None else ()
            # snapshot keys; Go semantics: deleted entries not yet reached are skipped -> we re-check presence at Next
            self.set(fr, ins, ("mapiter", x, [k for k, _ in ents], 0, ut["key"]))
            return
        raise Unsupported("range over " + ut["k"])

    def i_Next(self, st, fr, ins):
        it = self.val(st, fr, ins["iter"])
        kind, m, keys, pos, kt = it
        ents = st.heap[m.obj] if m is not None else ()
        while pos < len(keys):
            k = keys[pos]
            pos += 1
            # present still? (identity on the stored key object)
            for (k2, v2) in ents:
                if k2 is k:
                    st.frames[-1].locals[ins["iter"]["n"]] = (kind, m, keys, pos, kt)
                    self.set(fr, ins, (True, k, v2))
                    return
        st.frames[-1].locals[ins["iter"]["n"]] = (kind, m, keys, pos, kt)
        kz = self.zero(kt)
        self.set(fr, ins, (False, kz, None))

    # --- channels (minimal, sequential): a channel is a heap object ("chan", closed, buffered values)
    def i_MakeChan(self, st, fr, ins):
        o = self.newobj("ch")
        st.heap[o] = ("chan", False, ())
        self.set(fr, ins, ChanRef(o))

    def i_Send(self, st, fr, ins):
        ch = self.val(st, fr, ins["chan"])
        v = self.val(st, fr, ins["x"])
        if isinstance(ch, Opaque):
            return
        if ch is None:
            raise PathEnd()   # send on nil channel blocks forever
        _, closed, buf = st.heap[ch.obj]
        if closed:
            raise GoPanic("send on closed channel")
        st.heap[ch.obj] = ("chan", closed, buf + (v,))

    def chan_ready(self, st, ch):
        """None = unknown (opaque environment channel), else bool"""
        if isinstance(ch, Opaque):
            return None
        if ch is None:
            return False
        _, closed, buf = st.heap[ch.obj]
        return closed or len(buf) > 0

    def chan_take(self, st, ch, elem_zero):
        if isinstance(ch, Opaque):
            return (Opaque("recv"), True)
        _, closed, buf = st.heap[ch.obj]
        if buf:
            st.heap[ch.obj] = ("chan", closed, buf[1:])
            return (buf[0], True)
        return (elem_zero, False)

    def i_Select(self, st, fr, ins):
        states = ins["states"]
        chans = [self.val(st, fr, s["chan"]) for s in states]
        rty = self.p.T(ins["t"])["elems"]
        alts = []
        for i, (s, ch) in enumerate(zip(states, chans)):
            if s["dir"] == 1:   # send
                raise Unsupported("select with send case")
            r = self.chan_ready(st, ch)
            if r is False:
                continue
            alts.append((True, i))
        if not ins["blocking"]:
            alts.append((True, -1))
        if not alts:
            raise PathEnd()   # blocks forever: not an execution that returns
        nrecv = len(rty) - 2

        def app(s2, i):
            vals = [self.zero(t) for t in rty[2:]]
            ok = False
            if i >= 0:
                # position of this receive among the receive cases
                pos = sum(1 for s in states[:i] if s["dir"] != 1)
                v, ok = self.chan_take(s2, chans[i], vals[pos] if nrecv else None)
                if nrecv:
                    vals[pos] = v
            s2.frames[-1].locals[ins["name"]] = tuple([i, ok] + vals)
            s2.nforks += 0
        return self.fork(st, alts, app)

    def i_SliceToArrayPointer(self, st, fr, ins):
        x = self.val(st, fr, ins["x"])
        if x.ptr is None:
            self.set(fr, ins, None)
            return
        if isinstance(x.off, int) and x.off == 0:
            self.set(fr, ins, x.ptr)
            return
        raise Unsupported("slice to array pointer with offset")

    # ------------------------------------------------------------------ builtins
    def builtin(self, st, fr, name, args, ins):
        if name == "len":
            x = args[0]
            if isinstance(x, SliceV):
                return x.len
            if isinstance(x, MapRef):
                return len(st.heap[x.obj])
            if x is None:
                return 0
            if isinstance(x, (tuple, StructV)):
                return len(x)
            if isinstance(x, Bytes):
                return x.n
            raise Unsupported("len of %r" % (x,))
        if name == "cap":
            x = args[0]
            if isinstance(x, SliceV):
                return x.cap
            raise Unsupported("cap")
        if name == "copy":
            return self.do_copy(st, args[0], args[1])
        if name == "append":
            return self.do_append(st, args[0], args[1], ins)
        if name == "delete":
            m, key = args
            if m is None:
                return None
            kt = self.p.U(self.p.T(ins["call"]["sig"])["params"][0])["key"]
            alts = self.map_lookup_alts(st, m, key, kt)

            def mk(i):
                def f(s2):
                    if i is not None:
                        ents = list(s2.heap[m.obj])
                        del ents[i]
                        s2.heap[m.obj] = tuple(ents)
                    return None
                return f
            return ForkResult([(c, mk(i)) for c, i in alts], lazy=True)
        if name == "min" or name == "max":
            a, b = args
            c = self.A.cmp("<" if name == "min" else ">", a, b)
            return ite(c, a, b, self.A.mk)
        if name in ("print", "println"):
            return None
        if name == "SliceData":
            x = args[0]
            if x.ptr is None:
                return None
            return Ptr(x.ptr.obj, x.ptr.path + (x.off,))
        if name == "StringData":
            x = args[0]
            if x.ptr is None:
                return None
            return Ptr(x.ptr.obj, x.ptr.path + (x.off,))
        if name in ("Slice", "String"):
            p, n = args
            if p is None:
                return SliceV(None, 0, 0, 0, name == "String")
            base = Ptr(p.obj, p.path[:-1])
            off = p.path[-1]
            b = self.load(st, base)
            if not isinstance(b, Bytes):
                raise Unsupported("unsafe.Slice on non-byte memory")
            # the resulting slice must stay inside the allocation
            self.bounds_check(st, band(self.A.cmp("<=", 0, n), self.A.cmp("<=", self.add(off, n), b.n)), "unsafe.Slice beyond the allocation", ins)
            return SliceV(base, off, n, n, name == "String")
        if name == "ssa:wrapnilchk":
            if args[0] is None:
                raise GoPanic("nil receiver in wrapper")
            return args[0]
        if name == "recover":
            return None
        if name == "close":
            ch = args[0]
            if isinstance(ch, Opaque):
                return None
            if ch is None:
                raise GoPanic("close of nil channel")
            _, closed, buf = st.heap[ch.obj]
            if closed:
                raise GoPanic("close of closed channel")
            st.heap[ch.obj] = ("chan", True, buf)
            return None
        if name == "clear":
            x = args[0]
            if isinstance(x, MapRef):
                st.heap[x.obj] = ()
                return None
        raise Unsupported("builtin " + name)

    def do_copy(self, st, dst, src):
        n = ite(self.A.cmp("<", dst.len, src.len), dst.len, src.len, self.A.mk)
        n = simp(n) if is_sym(n) else n
        if dst.ptr is None or src.ptr is None:
            return 0 if (dst.ptr is None and src.ptr is None) or isinstance(n, int) else n
        db = self.load(st, dst.ptr)
        sb = self.load(st, src.ptr)
        if isinstance(db, Bytes) and isinstance(sb, Bytes):
            if isinstance(n, int) and n == 0:
                return 0
            nb = Bytes(ACopy(db.arr, dst.off, sb.arr, src.off, n), db.n)
            self.store(st, dst.ptr, nb)
            return n
        # generic element copy with concrete counts
        if not (isinstance(n, int) and isinstance(dst.off, int) and isinstance(src.off, int)):
            raise Unsupported("copy of non-byte slices with symbolic extent")
        sv = list(sb)
        dv = list(db)
        for i in range(n):
            dv[dst.off + i] = sv[src.off + i]
        self.store(st, dst.ptr, StructV(dv))
        return n

    def do_append(self, st, s, t, ins):
        """append(s, t...) ; t is a slice (or string)"""
        sig = self.p.T(ins["call"]["sig"])
        st_t = sig["params"][0]
        et = self.p.U(st_t)["elem"]
        if self.p.is_byte_elem(et):
            tl = t.len if t is not None else 0
            if isinstance(tl, int) and tl == 0:
                return s
            newlen = self.add(s.len, tl)
            fits = self.A.cmp("<=", newlen, s.cap) if s.ptr is not None else False
            tarr = self.load(st, t.ptr).arr

            def inplace(s2):
                db = self.load(s2, s.ptr)
                nb = Bytes(ACopy(db.arr, self.add(s.off, s.len), tarr, t.off, tl), db.n)
                self.store(s2, s.ptr, nb)
                return SliceV(s.ptr, s.off, newlen, s.cap)

            def realloc(s2):
                # new capacity: unspecified by the language (>= newlen): fresh symbol
                nm = self.fresh_name("appendcap")
                cap = self.A.fresh(nm, 64, True)
                s2.pc.append(self.A.cmp(">=", cap, newlen))
                if not self.bv:
                    s2.pc.append(cap <= (1 << 62))
                arr = AZero()
                if s.ptr is not None:
                    arr = ACopy(arr, 0, self.load(s2, s.ptr).arr, s.off, s.len)
                arr = ACopy(arr, s.len, tarr, t.off, tl)
                p = self.alloc(s2, Bytes(arr, cap), "b")
                return SliceV(p, 0, newlen, cap)
            if fits is True:
                return inplace(st)
            if fits is False:
                return realloc(st)
            return ForkResult([(fits, inplace), (bnot(fits), realloc)], lazy=True)
        # generic: concrete lengths
        tl = t.len if t is not None else 0
        if not (isinstance(s.len, int) and isinstance(tl, int)):
            raise Unsupported("append on non-byte slice with symbolic length")
        if tl == 0:
            return s
        tv = list(self.load(st, t.ptr))[t.off:t.off + tl]
        if s.ptr is not None and isinstance(s.cap, int) and s.len + tl <= s.cap:
            dv = list(self.load(st, s.ptr))
            for i, v in enumerate(tv):
                dv[s.off + s.len + i] = v
            self.store(st, s.ptr, StructV(dv))
            return SliceV(s.ptr, s.off, s.len + tl, s.cap)
        old = list(self.load(st, s.ptr))[s.off:s.off + s.len] if s.ptr is not None else []
        newcap = max(2 * (s.cap if isinstance(s.cap, int) else 0), s.len + tl)
        z = self.zero(et)
        vals = old + tv + [z] * (newcap - len(old) - len(tv))
        p = self.alloc(st, StructV(vals), "l")
        return SliceV(p, 0, s.len + tl, newcap)


class GoPanic(Exception):
    def __init__(self, what):
        self.what = what


class ForkResult:
    """stub/builtin result with several alternatives: alts = [(cond, value or fn(state)->value)]"""

    def __init__(self, alts, lazy=False):
        self.alts = alts
        self.lazy = lazy


class CallInstead:
    def __init__(self, fn, args, binds=(), catch=False):
        self.fn = fn
        self.args = args
        self.binds = binds
        self.catch = catch
