"""Engine B: bounded round-robin concurrent encoder over go/ssa.

Phase 1 (per thread): guarded symbolic execution of the thread's real code (calls inlined, loops unrolled U
times, branches if-converted) into a linear list of VISIBLE statements (every access to shared memory: atomics
and plain loads/stores), each with a guard over thread-local result variables.

Phase 2: Lazy-CSeq style schedule: rounds r = 1..R, threads in fixed order, thread t runs its statements from
position cs[r-1][t] up to the symbolic context-switch position cs[r][t]. Memory is threaded functionally through
the statement copies in (round, thread, position) order. One unsat answer covers every interleaving with at most
R*T-1 context switches that respect the round-robin order.
"""
import itertools
import time
import z3

from .vals import Unsupported
from .engine import BASIC_INT, BK_BOOL, BK_STRING, BK_UNSAFEPTR

PW = 8          # pointer (object id) width
IW = 32         # default int width used for counters in shared memory (narrowed, overflow is checked by range)


class CPtr:
    """pointer value: object id term (int or BV8) + static field path"""
    __slots__ = ("oid", "path", "tid")

    def __init__(self, oid, path=(), tid=None):
        self.oid = oid
        self.path = tuple(path)
        self.tid = tid

    def __repr__(self):
        return "CPtr(%s,%s)" % (self.oid, list(self.path))


class CIface:
    __slots__ = ("tid", "val")

    def __init__(self, tid, val):
        self.tid = tid
        self.val = val


class CClosure:
    __slots__ = ("fn", "binds")

    def __init__(self, fn, binds=()):
        self.fn = fn
        self.binds = tuple(binds)


class Stmt:
    __slots__ = ("kind", "guard", "addr", "args", "res", "pos", "op", "bits", "thread", "idx", "note")

    def __init__(self, kind, guard, addr, args, res, pos, bits=PW, note=""):
        self.kind, self.guard, self.addr, self.args, self.res, self.pos, self.bits, self.note = kind, guard, addr, args, res, pos, bits, note
        self.op = None
        self.thread = None
        self.idx = None


def bv(x, w):
    return z3.BitVecVal(x, w) if isinstance(x, int) and not isinstance(x, bool) else x


def is_sym(x):
    return isinstance(x, z3.ExprRef)


def band(*cs):
    out = []
    for c in cs:
        if c is True:
            continue
        if c is False:
            return False
        out.append(c)
    if not out:
        return True
    return out[0] if len(out) == 1 else z3.And(*out)


def bor(*cs):
    out = []
    for c in cs:
        if c is False:
            continue
        if c is True:
            return True
        out.append(c)
    if not out:
        return False
    return out[0] if len(out) == 1 else z3.Or(*out)


def bnot(c):
    return (not c) if isinstance(c, bool) else z3.Not(c)


def simp(e):
    if is_sym(e):
        e = z3.simplify(e)
        if z3.is_true(e):
            return True
        if z3.is_false(e):
            return False
        if z3.is_bv_value(e):
            return e.as_long()
    return e


def ite(c, a, b, w):
    if c is True:
        return a
    if c is False:
        return b
    if isinstance(a, bool) or isinstance(b, bool) or (is_sym(a) and z3.is_bool(a)):
        A = z3.BoolVal(a) if isinstance(a, bool) else a
        B = z3.BoolVal(b) if isinstance(b, bool) else b
        return z3.If(c, A, B)
    if not is_sym(a) and not is_sym(b) and a == b:
        return a
    return z3.If(c, bv(a, w), bv(b, w))


def eqv(a, b, w):
    if not is_sym(a) and not is_sym(b):
        return a == b
    return simp(bv(a, w) == bv(b, w))


class World:
    """object universe + initial memory"""

    def __init__(self, prog):
        self.p = prog
        self.objs = {}       # oid(int) -> {"tid": struct type id of the object, "name": str}
        self.cells = {}      # (oid, path) -> initial value (int/bool/python object for immutable non-scalars)
        self.cellw = {}      # (oid, path) -> bit width (scalars) or None
        self.next_oid = 1
        self.amap = {}       # engine-A object name -> oid
        self.consts = []     # table of non-scalar immutable values (closures, ifaces); cells hold their index

    def new_obj(self, tid, name):
        oid = self.next_oid
        self.next_oid += 1
        if oid >= (1 << PW) - 1:
            raise Unsupported("object universe too large")
        self.objs[oid] = {"tid": tid, "name": name}
        return oid

    def width_of(self, tid):
        ii = self.p.intinfo(tid)
        if ii:
            return ii[0]
        t = self.p.U(tid)
        if t["k"] in ("ptr", "map", "chan") or (t["k"] == "basic" and t["bk"] == BK_UNSAFEPTR):
            return PW
        if t["k"] == "basic" and t["bk"] in BK_BOOL:
            return 1
        return None   # non-scalar (iface, func, string, slice): handled through the constant table

    def leaf_paths(self, tid, prefix=()):
        """yield (path, leaf type id) for every scalar/opaque leaf of a value of type tid"""
        t = self.p.U(tid)
        if t["k"] == "struct":
            for i, f in enumerate(t["fields"]):
                yield from self.leaf_paths(f["t"], prefix + (i,))
        elif t["k"] == "array":
            for i in range(t["len"]):
                yield from self.leaf_paths(t["elem"], prefix + (i,))
        else:
            yield prefix, tid

    def const_index(self, v):
        for i, c in enumerate(self.consts):
            if c is v:
                return i + 1
        self.consts.append(v)
        return len(self.consts)


class ThreadProgram:
    def __init__(self, name):
        self.name = name
        self.stmts = []
        self.unw = False      # guard under which the unwinding bound is exceeded
        self.unw_list = []    # (guard, statement position at which the bound would be exceeded)
        self.panic_list = []
        self.ops = []         # (label, kind, arg, first_idx, last_idx, result)
        self.obs = {}


class Conc:
    def __init__(self, prog, world, unwind=3, cfg=None):
        self.p = prog
        self.w = world
        self.U = unwind
        self.cfg = cfg or {}
        self.symctr = 0
        self.cur = None
        self.rpo_cache = {}
        self.written = None
        self.stats = {"stmts": 0, "funcs": set()}
        self.intrinsics = {}
        self.thread_tag = ""
        self.private = {}

    # ------------------------------------------------------------------ static helpers
    def fresh(self, base, w):
        self.symctr += 1
        name = "%s!%s!%d" % (self.thread_tag, base, self.symctr)
        return z3.Bool(name) if w == 1 else z3.BitVec(name, w)

    def rpo(self, fn):
        key = fn["name"]
        if key in self.rpo_cache:
            return self.rpo_cache[key]
        order = []
        seen = set()

        def dfs(b):
            seen.add(b)
            for s in fn["_blocks"][b]["succs"]:
                if s not in seen:
                    dfs(s)
            order.append(b)
        dfs(0)
        order.reverse()
        idx = {b: i for i, b in enumerate(order)}
        # back edges: edge u->v where v is an ancestor in the DFS tree; approximate with rpo index (reducible CFGs)
        self.rpo_cache[key] = idx
        return idx

    def written_fields(self):
        """(struct type id, first path element) pairs that some reachable instruction may store to"""
        if self.written is not None:
            return self.written
        W = set()
        for fn in self.p.funcs.values():
            defs = {}
            for b in fn["blocks"]:
                for ins in b["instrs"]:
                    if "name" in ins:
                        defs[ins["name"]] = ins
            def root(o):
                if o is None or o.get("k") != "local":
                    return None
                d = defs.get(o["n"])
                if d is None:
                    return None
                if d["op"] == "FieldAddr":
                    # struct type of the base pointer: find from the defining operand's type if known
                    return ("field", d)
                if d["op"] in ("IndexAddr",):
                    return ("index", d)
                if d["op"] in ("Convert", "ChangeType"):
                    return root(d["x"])
                return None
            for b in fn["blocks"]:
                for ins in b["instrs"]:
                    tgt = None
                    if ins["op"] == "Store":
                        tgt = ins["addr"]
                    elif ins["op"] == "Call" and not ins["call"].get("invoke") and ins["call"]["fn"]["k"] == "func":
                        fnm = ins["call"]["fn"]["n"]
                        if fnm.startswith("sync/atomic.") and not fnm.startswith("sync/atomic.Load"):
                            tgt = ins["call"]["args"][0]
                        elif fnm.startswith("(*sync/atomic.") and not fnm.endswith(".Load"):
                            tgt = ins["call"]["args"][0]
                    if tgt is None:
                        continue
                    r = root(tgt)
                    if r and r[0] == "field":
                        d = r[1]
                        # pointee struct type of d["x"]: result type of FieldAddr is *FieldType; we key by (field ptr type, field idx)
                        W.add((d["t"], d["field"]))
        self.written = W
        return W

    # ------------------------------------------------------------------ guarded execution
    def run_thread(self, tname, fname):
        tp = ThreadProgram(tname)
        self.cur = tp
        self.thread_tag = tname
        self.private = {}
        self.call(fname, [], (), True, depth=0)
        for i, s in enumerate(tp.stmts):
            s.thread = tname
            s.idx = i
        self.stats["stmts"] += len(tp.stmts)
        return tp

    def emit(self, kind, guard, addr, args, w, pos, note=""):
        if kind in ("store", "cas", "swap") and w == PW and note != "const-index":
            for a in (args[-1:] if kind == "cas" else args):
                self.publish_term(a, pos)
        res = None
        if kind in ("load", "cas", "add", "swap"):
            res = self.fresh("L" + kind, 1 if kind == "cas" else w)
        s = Stmt(kind, guard, addr, args, res, pos, w, note)
        s.op = self.cur_op
        self.cur.stmts.append(s)
        return res

    cur_op = None

    # ---- atomic summary of the lock-free queue (linearizability established by C13 on the real code): the link step and
    # the length update stay two separate steps, because that gap is what C03 is about
    def queue_len_ptr(self, q):
        tid = self.w.objs[q.oid]["tid"]
        fields = self.p.U(tid)["fields"]
        idx = [i for i, f in enumerate(fields) if f["n"] == "length"][0]
        return CPtr(q.oid, (idx,))

    def abs_enqueue(self, args, g, ins):
        q, task = args
        if is_sym(q.oid):
            raise Unsupported("queue summary on a symbolic queue pointer")
        pos = "@queue.Enqueue[summary:link] " + (ins.get("pos", "") if ins else "")
        self.publish_value(task, pos)
        s = Stmt("absenq", g, CPtr(q.oid, ()), (task.oid,), None, pos, PW, "")
        s.op = self.cur_op
        self.cur.stmts.append(s)
        self.emit("add", g, self.queue_len_ptr(q), (1,), 32, "@queue.Enqueue[summary:length++]")
        return None

    def abs_dequeue(self, args, g, ins):
        q = args[0]
        pos = "@queue.Dequeue[summary:unlink] " + (ins.get("pos", "") if ins else "")
        res = self.fresh("Ldeq", PW)
        s = Stmt("absdeq", g, CPtr(q.oid, ()), (), res, pos, PW, "")
        s.op = self.cur_op
        self.cur.stmts.append(s)
        self.emit("add", band(g, res != 0), self.queue_len_ptr(q), ((1 << 32) - 1,), 32, "@queue.Dequeue[summary:length--]")
        return CPtr(res, ())

    def emit_await(self, ptr, g, ins):
        s = Stmt("await", g, ptr, (), None, "vAwait " + (ins.get("pos", "") if ins else ""), 32, "")
        s.op = self.cur_op
        self.cur.stmts.append(s)
        return None

    def val(self, env, o):
        if o is None:
            return None
        k = o["k"]
        if k == "local":
            return env[o["n"]]
        if k == "const":
            tid = o["t"]
            t = self.p.U(tid)
            if "hex" in o:
                return ("str", bytes.fromhex(o["hex"]))
            v = o.get("v")
            if v is None:
                if t["k"] in ("ptr",) or (t["k"] == "basic" and t["bk"] == BK_UNSAFEPTR):
                    return CPtr(0, ())
                return None
            if isinstance(v, bool):
                return v
            ii = self.p.intinfo(tid)
            iv = int(v)
            if ii:
                from .arith import norm
                return norm(iv, ii[0], ii[1]) & ((1 << ii[0]) - 1)
            return iv
        if k == "global":
            oid = self.w.amap.get("g:" + o["n"])
            if oid is None:
                oid = self.w.lazy_global(o["n"])
            return CPtr(oid, (), o.get("t"))
        if k == "func":
            return CClosure(o["n"])
        if k == "builtin":
            return ("builtin", o["n"])
        raise Unsupported("operand " + k)

    def merge_vals(self, pairs, tid=None):
        """pairs: [(guard, value)] -> merged value"""
        vals = [v for _, v in pairs]
        if all(v is vals[0] for v in vals):
            return vals[0]
        res = pairs[-1][1]
        for g, v in reversed(pairs[:-1]):
            res = self.merge2(g, v, res)
        return res

    def merge2(self, g, a, b):
        if a is b:
            return a
        if isinstance(a, CPtr) and isinstance(b, CPtr):
            if a.path != b.path:
                raise Unsupported("merge of pointers with different field paths")
            return CPtr(ite(g, a.oid, b.oid, PW), a.path, a.tid or b.tid)
        if isinstance(a, tuple) and isinstance(b, tuple) and len(a) == len(b) and not (a and isinstance(a[0], str) and a[0] in ("str", "builtin", "constref", "constchoice", "slice")):
            return tuple(self.merge2(g, x, y) for x, y in zip(a, b))
        if (isinstance(a, (int, bool)) or is_sym(a)) and (isinstance(b, (int, bool)) or is_sym(b)):
            w = a.size() if (is_sym(a) and z3.is_bv(a)) else (b.size() if (is_sym(b) and z3.is_bv(b)) else 64)
            return ite(g, a, b, w)
        if a is None and b is None:
            return None
        if isinstance(a, CIface) and isinstance(b, CIface) and a.tid == b.tid:
            return CIface(a.tid, self.merge2(g, a.val, b.val))
        if isinstance(a, CClosure) and isinstance(b, CClosure) and a.fn == b.fn and not a.binds and not b.binds:
            return a
        if isinstance(a, tuple) and isinstance(b, tuple) and a and b and a[0] == "constref" and b[0] == "constref":
            return ("constref", ite(g, a[1], b[1], PW), a[2])
        if isinstance(a, tuple) and a and a[0] == "constref" and b is None:
            return ("constref", ite(g, a[1], 0, PW), a[2])
        if isinstance(b, tuple) and b and b[0] == "constref" and a is None:
            return ("constref", ite(g, 0, b[1], PW), b[2])
        raise Unsupported("cannot merge values %r / %r" % (a, b))

    def call(self, fname, args, binds, guard, depth, ins=None):
        """returns the (merged) return value"""
        h = self.stub(fname)
        if h is not None:
            return h(self, args, guard, ins)
        fn = self.p.funcs.get(fname)
        if fn is None:
            raise Unsupported("call to external function without stub: " + fname)
        if depth > 40:
            raise Unsupported("call depth")
        self.stats["funcs"].add(fname)
        rpo = self.rpo(fn)
        env0 = {}
        for prm, a in zip(fn["params"], args):
            env0[prm["n"]] = a
        for prm, b in zip(fn["freevars"], binds):
            env0[prm["n"]] = b
        pending = {(0, 0): [(guard, None, env0)]}
        returns = []
        while pending:
            key = min(pending, key=lambda kk: (kk[1], rpo[kk[0]]))
            incoming = pending.pop(key)
            b, k = key
            g = simp(bor(*[x[0] for x in incoming]))
            if g is False:
                continue
            blk = fn["_blocks"][b]
            # merge environments
            if len(incoming) == 1:
                env = dict(incoming[0][2])
            else:
                names = set(incoming[0][2])
                for _, _, e in incoming[1:]:
                    names &= set(e)
                env = {}
                for n in names:
                    env[n] = self.merge_vals([(x[0], x[2][n]) for x in incoming])
            # phis
            instrs = blk["instrs"]
            ip = 0
            newv = {}
            while ip < len(instrs) and instrs[ip]["op"] == "Phi":
                pins = instrs[ip]
                pairs = []
                for (gi, pred, e) in incoming:
                    pi = blk["preds"].index(pred)
                    pairs.append((gi, self.val(e, pins["edges"][pi])))
                newv[pins["name"]] = self.merge_vals(pairs)
                ip += 1
            env.update(newv)
            while ip < len(instrs):
                ins2 = instrs[ip]
                ip += 1
                op = ins2["op"]
                if op == "Jump":
                    self.edge(pending, fn, rpo, b, k, blk["succs"][0], g, env)
                elif op == "If":
                    c = self.val(env, ins2["cond"])
                    c = simp(c)
                    if c is True:
                        self.edge(pending, fn, rpo, b, k, blk["succs"][0], g, env)
                    elif c is False:
                        self.edge(pending, fn, rpo, b, k, blk["succs"][1], g, env)
                    else:
                        self.edge(pending, fn, rpo, b, k, blk["succs"][0], band(g, c), env)
                        self.edge(pending, fn, rpo, b, k, blk["succs"][1], band(g, z3.Not(c)), env)
                elif op == "Return":
                    vals = [self.val(env, r) for r in ins2["results"]]
                    rv = vals[0] if len(vals) == 1 else (tuple(vals) if vals else None)
                    returns.append((g, rv))
                elif op == "Panic":
                    self.cur.panics = bor(getattr(self.cur, "panics", False), g)
                    self.cur.panic_list.append((g, len(self.cur.stmts)))
                else:
                    self.exec_instr(fn, env, ins2, g, depth)
        if not returns:
            return None
        return self.merge_vals(returns)

    def unwind_for(self, fn):
        for key, u in self.cfg.get("unwind_fn", {}).items():
            if fn["name"].endswith(key):
                return u
        return self.U

    def edge(self, pending, fn, rpo, b, k, succ, g, env):
        g = simp(g)
        if g is False:
            return
        k2 = k
        if rpo[succ] <= rpo[b]:      # back edge: next unrolled copy
            k2 = k + 1
            if k2 > self.unwind_for(fn):
                self.cur.unw = bor(self.cur.unw, g)
                self.cur.unw_list.append((g, len(self.cur.stmts)))
                return
        pending.setdefault((succ, k2), []).append((g, b, env))

    # ------------------------------------------------------------------ memory access helpers
    def ptr_width(self, tid_elem):
        w = self.w.width_of(tid_elem)
        return w

    def do_load(self, ptr, elem_tid, g, pos):
        """load a value of type elem_tid through ptr (scalar leaf or aggregate)"""
        t = self.p.U(elem_tid)
        if t["k"] in ("struct", "array"):
            vals = []
            if t["k"] == "struct":
                for i, f in enumerate(t["fields"]):
                    vals.append(self.do_load(CPtr(ptr.oid, ptr.path + (i,)), f["t"], g, pos))
            else:
                for i in range(t["len"]):
                    vals.append(self.do_load(CPtr(ptr.oid, ptr.path + (i,)), t["elem"], g, pos))
            return tuple(vals)
        w = self.w.width_of(elem_tid)
        if not is_sym(ptr.oid) and ptr.oid in self.private:
            loc = self.private[ptr.oid]
            if any(is_sym(e) for e in ptr.path):
                v, cw, isconst = None, None, False
                for path2, (v2, cw2, ic2) in loc.items():
                    cond = self.path_match(ptr.path, path2)
                    if cond is False:
                        continue
                    v = v2 if v is None else ite(cond, v2, v, cw2)
                    cw, isconst = cw2, ic2
                if v is None:
                    raise Unsupported("no cell matches a symbolic path")
            else:
                v, cw, isconst = loc[ptr.path]
            if isconst:
                return ("constref", v, elem_tid) if (is_sym(v) or v) else None
            return self.wrap_loaded(v, elem_tid)
        # immutable cell of a statically known object: resolve now
        if not is_sym(ptr.oid) and not self.may_be_written(ptr):
            v = self.w.cells.get((ptr.oid, ptr.path))
            return self.wrap_loaded(v, elem_tid)
        if w is None:
            # non-scalar leaf (interface / func): cell holds an index into the constant table
            idx = self.emit("load", g, ptr, (), PW, pos, note="const-index")
            return ("constref", idx, elem_tid)
        r = self.emit("load", g, ptr, (), w, pos)
        return self.wrap_loaded(r, elem_tid)

    def path_match(self, sympath, path):
        if len(sympath) != len(path):
            return False
        conds = []
        for a, b in zip(sympath, path):
            if is_sym(a):
                conds.append(a == z3.BitVecVal(b, a.size()))
            elif a != b:
                return False
        return band(*conds)

    def wrap_loaded(self, v, elem_tid):
        t = self.p.U(elem_tid)
        if t["k"] == "ptr" or (t["k"] == "basic" and t["bk"] == BK_UNSAFEPTR):
            if isinstance(v, CPtr):
                return v
            return CPtr(v if v is not None else 0, (), elem_tid)
        return v

    def may_be_written(self, ptr):
        key = (ptr.oid if not is_sym(ptr.oid) else None, ptr.path)
        if not is_sym(ptr.oid):
            return (ptr.oid, ptr.path) in self.w_written_cells
        return True

    w_written_cells = set()

    def do_store(self, ptr, val, elem_tid, g, pos):
        t = self.p.U(elem_tid)
        if t["k"] in ("struct", "array"):
            n = len(t["fields"]) if t["k"] == "struct" else t["len"]
            for i in range(n):
                et = t["fields"][i]["t"] if t["k"] == "struct" else t["elem"]
                self.do_store(CPtr(ptr.oid, ptr.path + (i,)), val[i] if val is not None else None, et, g, pos)
            return
        w = self.w.width_of(elem_tid)
        if not is_sym(ptr.oid) and ptr.oid in self.private and any(is_sym(e) for e in ptr.path):
            loc = self.private[ptr.oid]
            for path2 in list(loc):
                cond = self.path_match(ptr.path, path2)
                if cond is False:
                    continue
                self.do_store(CPtr(ptr.oid, path2, ptr.tid), val, elem_tid, band(g, cond), pos)
            return
        if not is_sym(ptr.oid) and ptr.oid in self.private:
            loc = self.private[ptr.oid]
            old, cw, isconst = loc[ptr.path]
            if isconst:
                if isinstance(val, tuple) and val and val[0] == "constref":
                    nv = val[1]
                else:
                    nv = 0 if val is None else self.w.const_index(val)
            else:
                nv = val.oid if isinstance(val, CPtr) else (0 if val is None else ((1 if val else 0) if isinstance(val, bool) else val))
            loc[ptr.path] = (ite(g, nv, old, cw), cw, isconst)
            return
        if w is None:
            if isinstance(val, tuple) and val and val[0] == "constref":
                idx = val[1]
            else:
                idx = 0 if val is None else self.w.const_index(val)
                self.publish_value(val, pos)
            self.emit("store", g, ptr, (idx,), PW, pos, note="const-index")
            return
        if isinstance(val, CPtr):
            val = val.oid
        if val is None:
            val = 0
        if isinstance(val, bool):
            val = 1 if val else 0
        self.emit("store", g, ptr, (val,), w, pos)

    # ------------------------------------------------------------------ instructions
    def exec_instr(self, fn, env, ins, g, depth):
        op = ins["op"]
        p = self.p
        pos = "%s %s" % (fn["name"].rsplit("/", 1)[-1], ins.get("pos", ""))
        if op == "Alloc":
            et = p.T(ins["t"])["elem"]
            oid = self.new_thread_obj(et, pos)
            env[ins["name"]] = CPtr(oid, (), ins["t"])
            return
        if op == "FieldAddr":
            x = env_val(self, env, ins["x"])
            env[ins["name"]] = CPtr(x.oid, x.path + (ins["field"],), ins["t"])
            return
        if op == "IndexAddr":
            x = env_val(self, env, ins["x"])
            i = env_val(self, env, ins["index"])
            if is_sym(i):
                # allowed only into thread-private memory (resolved by case split in do_load/do_store)
                xs = self.resolve_const(x, g) if not isinstance(x, CPtr) else x
                base = xs[1] if (isinstance(xs, tuple) and xs and xs[0] == "slice") else xs
                if not (isinstance(base, CPtr) and not is_sym(base.oid) and base.oid in self.private):
                    raise Unsupported("symbolic index into shared memory in concurrent code")
                off = xs[2] if (isinstance(xs, tuple) and xs and xs[0] == "slice") else 0
                env[ins["name"]] = CPtr(base.oid, base.path + (simp(bv(i, 64) + off),), ins["t"])
                return
            x = self.resolve_const(x, g)
            if isinstance(x, tuple) and x and x[0] == "slice":
                base = x[1]
                env[ins["name"]] = CPtr(base.oid, base.path + (x[2] + i,), ins["t"])
            else:
                env[ins["name"]] = CPtr(x.oid, x.path + (i,), ins["t"])
            return
        if op == "Field":
            x = env_val(self, env, ins["x"])
            env[ins["name"]] = x[ins["field"]]
            return
        if op == "Extract":
            x = env_val(self, env, ins["x"])
            env[ins["name"]] = x[ins["index"]]
            return
        if op == "UnOp":
            x = env_val(self, env, ins["x"])
            u = ins["unop"]
            if u == "*":
                et = p.T(ins["xt"])["elem"]
                env[ins["name"]] = self.do_load(x, et, g, pos)
                return
            if u == "!":
                env[ins["name"]] = simp(bnot(x))
                return
            ii = p.intinfo(ins["t"])
            if u == "-" and ii:
                env[ins["name"]] = simp(-bv(x, ii[0])) if is_sym(x) else (-x) & ((1 << ii[0]) - 1)
                return
            raise Unsupported("unop " + u)
        if op == "Store":
            a = env_val(self, env, ins["addr"])
            v = env_val(self, env, ins["val"])
            et = self.elem_type_of_ptr(fn, ins["addr"], a)
            self.do_store(a, v, et, g, pos)
            return
        if op == "BinOp":
            env[ins["name"]] = self.binop(ins, env_val(self, env, ins["x"]), env_val(self, env, ins["y"]))
            return
        if op in ("Convert", "ChangeType", "ChangeInterface"):
            x = env_val(self, env, ins["x"])
            if op == "Convert":
                fi, ti = p.intinfo(ins["xt"]), p.intinfo(ins["t"])
                if fi and ti:
                    env[ins["name"]] = self.convert(x, fi, ti)
                    return
            if isinstance(x, CPtr):
                x = CPtr(x.oid, x.path, ins["t"])
            env[ins["name"]] = x
            return
        if op == "MakeInterface":
            env[ins["name"]] = CIface(ins["xt"], env_val(self, env, ins["x"]))
            return
        if op == "MakeClosure":
            f = self.val(env, ins["fn"])
            env[ins["name"]] = CClosure(f.fn, [env_val(self, env, b) for b in ins["bindings"]])
            return
        if op == "TypeAssert":
            x = env_val(self, env, ins["x"])
            x = self.resolve_const(x, g)
            ok = x is not None and isinstance(x, CIface) and (x.tid == ins["asserted"] or p.U(ins["asserted"])["k"] == "iface")
            res = (x.val if p.U(ins["asserted"])["k"] != "iface" else x) if ok else None
            env[ins["name"]] = (res, ok) if ins["commaok"] else res
            return
        if op == "Call":
            env[ins["name"]] = self.do_call(env, ins, g, depth)
            return
        if op == "MakeSlice":
            n = env_val(self, env, ins["len"])
            cp = env_val(self, env, ins["cap"])
            if is_sym(n) or is_sym(cp):
                raise Unsupported("make with symbolic length in concurrent code")
            et = p.U(ins["t"])["elem"]
            arr_t = self.array_type(et, cp)
            oid = self.new_thread_obj_paths(et, cp, pos)
            env[ins["name"]] = ("slice", CPtr(oid, ()), 0, n, cp, et)
            return
        if op == "Slice":
            x = env_val(self, env, ins["x"])
            if isinstance(x, tuple) and x and x[0] == "slice":
                lo = env_val(self, env, ins["low"]) if ins["low"] else 0
                hi = env_val(self, env, ins["high"]) if ins["high"] else x[3]
                env[ins["name"]] = ("slice", x[1], x[2] + lo, hi - lo, x[4] - lo, x[5])
                return
            raise Unsupported("slice of non-slice in concurrent code")
        if op in ("Defer", "RunDefers", "Go"):
            raise Unsupported(op + " in concurrent code")
        raise Unsupported("instruction " + op)

    def elem_type_of_ptr(self, fn, operand, ptrval):
        if isinstance(ptrval, CPtr) and ptrval.tid is not None:
            return self.p.T(self.p.under(ptrval.tid))["elem"]
        raise Unsupported("untyped pointer store")

    def resolve_const(self, x, g):
        if isinstance(x, tuple) and x and x[0] == "constref":
            idx = x[1]
            if is_sym(idx):
                # choose among table entries: value must be the same Go type for all candidates
                cands = [(eqv(idx, i + 1, PW), c) for i, c in enumerate(self.w.consts)]
                cands = [(c, v) for c, v in cands if c is not False]
                if len(cands) == 1:
                    return cands[0][1]
                return ("constchoice", cands)
            return self.w.consts[idx - 1] if idx else None
        return x

    def convert(self, x, fi, ti):
        fb, fs = fi
        tb, ts = ti
        if not is_sym(x):
            return x & ((1 << tb) - 1)
        if tb == fb:
            return x
        if tb < fb:
            return z3.Extract(tb - 1, 0, x)
        return z3.SignExt(tb - fb, x) if fs else z3.ZeroExt(tb - fb, x)

    def binop(self, ins, x, y):
        op = ins["binop"]
        p = self.p
        ut = p.U(ins["xt"])
        if isinstance(x, CPtr) or isinstance(y, CPtr) or (ut["k"] in ("ptr",)) or (ut["k"] == "basic" and ut["bk"] == BK_UNSAFEPTR):
            xo = x.oid if isinstance(x, CPtr) else (0 if x is None else x)
            yo = y.oid if isinstance(y, CPtr) else (0 if y is None else y)
            if isinstance(x, CPtr) and isinstance(y, CPtr) and x.path != y.path:
                e = False
            else:
                e = eqv(xo, yo, PW)
            return e if op == "==" else simp(bnot(e))
        if ut["k"] == "iface" or ut["k"] == "sig":
            if x is None or y is None:
                e = x is None and y is None
                if isinstance(x, tuple) and x and x[0] == "constref":
                    e = eqv(x[1], 0, PW)
                if isinstance(y, tuple) and y and y[0] == "constref":
                    e = eqv(y[1], 0, PW)
                return e if op == "==" else simp(bnot(e))
            raise Unsupported("interface comparison in concurrent code")
        if ut["k"] == "basic" and ut["bk"] in BK_BOOL:
            if op == "==":
                return simp(x == y) if (is_sym(x) or is_sym(y)) else x == y
            if op == "!=":
                return simp(x != y) if (is_sym(x) or is_sym(y)) else x != y
        ii = p.intinfo(ins["xt"])
        if ii:
            w, signed = ii
            if not is_sym(x) and not is_sym(y):
                from .arith import IntMode, norm
                if op in ("==", "!=", "<", "<=", ">", ">="):
                    xs = norm(x, w, signed)
                    ys = norm(y, w, signed)
                    return {"==": xs == ys, "!=": xs != ys, "<": xs < ys, "<=": xs <= ys, ">": xs > ys, ">=": xs >= ys}[op]
                return IntMode._concrete(None, op, norm(x, w, signed), norm(y, w, signed), w, signed) & ((1 << w) - 1)
            X, Y = bv(x, w), bv(y, w)
            if op == "+":
                return simp(X + Y)
            if op == "-":
                return simp(X - Y)
            if op == "==":
                return simp(X == Y)
            if op == "!=":
                return simp(X != Y)
            if op in ("<", "<=", ">", ">="):
                if signed:
                    return simp({"<": X < Y, "<=": X <= Y, ">": X > Y, ">=": X >= Y}[op])
                return simp({"<": z3.ULT(X, Y), "<=": z3.ULE(X, Y), ">": z3.UGT(X, Y), ">=": z3.UGE(X, Y)}[op])
            if op == "&":
                return simp(X & Y)
            if op == "|":
                return simp(X | Y)
        raise Unsupported("binop %s on %s" % (op, ut.get("s")))

    def array_type(self, et, n):
        return None

    def new_thread_obj_paths(self, et, n, pos):
        """backing array of n elements of type et"""
        oid = self.w.new_obj(("array", et, n), "%s@%s[]" % (self.thread_tag, pos))
        loc = {}
        for i in range(n):
            for path, lt in self.w.leaf_paths(et):
                w = self.w.width_of(lt)
                full = (i,) + path
                self.w.cells[(oid, full)] = 0
                self.w.cellw[(oid, full)] = w if w is not None else PW
                self.w_written_cells.add((oid, full))
                loc[full] = (0, w if w is not None else PW, w is None)
        self.private[oid] = loc
        return oid

    def new_thread_obj(self, et, pos):
        oid = self.w.new_obj(et, "%s@%s" % (self.thread_tag, pos))
        loc = {}
        for path, lt in self.w.leaf_paths(et):
            w = self.w.width_of(lt)
            self.w.cells[(oid, path)] = 0
            self.w.cellw[(oid, path)] = w if w is not None else PW
            self.w_written_cells.add((oid, path))
            loc[path] = (0, w if w is not None else PW, w is None)
        # thread-private until its pointer is written to shared memory: accesses are local, no schedule points
        self.private[oid] = loc
        return oid

    def publish(self, oid, pos):
        """the pointer to a private object is about to become visible to other threads: flush its contents"""
        loc = self.private.pop(oid, None)
        if loc is None:
            return
        for path, (v, w, isconst) in loc.items():
            self.publish_value(v if not isconst else (self.w.consts[v - 1] if isinstance(v, int) and v > 0 else None), pos)
            s = Stmt("store", True, CPtr(oid, path), (v,), None, pos.replace("@", "") + " [init flush]", w, "const-index" if isconst else "")
            s.op = self.cur_op
            self.cur.stmts.append(s)

    def publish_value(self, v, pos):
        """publish every private object reachable from value v"""
        if isinstance(v, CPtr):
            self.publish_term(v.oid, pos)
        elif isinstance(v, CClosure):
            for b in v.binds:
                self.publish_value(b, pos)
        elif isinstance(v, CIface):
            self.publish_value(v.val, pos)
        elif isinstance(v, tuple):
            for x in v:
                self.publish_value(x, pos)
        elif is_sym(v) or isinstance(v, int):
            self.publish_term(v, pos)

    def publish_term(self, t, pos):
        if isinstance(t, bool):
            return
        if isinstance(t, int):
            if t in self.private:
                self.publish(t, pos)
            return
        if is_sym(t) and z3.is_bv(t) and t.size() == PW and self.private:
            # a merged pointer: any private object it may denote becomes shared
            for oid in list(self.private):
                if self.mentions(t, oid):
                    self.publish(oid, pos)

    def mentions(self, t, oid):
        seen = set()
        stack = [t]
        while stack:
            e = stack.pop()
            if e.get_id() in seen:
                continue
            seen.add(e.get_id())
            if z3.is_bv_value(e) and e.size() == PW and e.as_long() == oid:
                return True
            stack.extend(e.children())
        return False

    # ------------------------------------------------------------------ calls
    def do_call(self, env, ins, g, depth):
        c = ins["call"]
        if c.get("invoke"):
            recv = env_val(self, env, c["recv"])
            recv = self.resolve_const(recv, g)
            args = [env_val(self, env, a) for a in c["args"]]
            if isinstance(recv, tuple) and recv and recv[0] == "constchoice":
                outs = []
                for cond, v in recv[1]:
                    if not isinstance(v, CIface):
                        continue
                    fname = self.p.methods.get(str(v.tid), {}).get(c["method"])
                    outs.append((cond, self.call(fname, [v.val] + args, (), band(g, cond), depth + 1, ins)))
                return self.merge_vals(outs)
            if not isinstance(recv, CIface):
                raise Unsupported("invoke on %r" % (recv,))
            fname = self.p.methods.get(str(recv.tid), {}).get(c["method"])
            if fname is None:
                raise Unsupported("no method %s" % c["method"])
            return self.call(fname, [recv.val] + args, (), g, depth + 1, ins)
        f = self.val(env, c["fn"])
        args = [env_val(self, env, a) for a in c["args"]]
        if isinstance(f, tuple) and f[0] == "builtin":
            if f[1] in ("len", "cap") and isinstance(args[0], tuple) and args[0] and args[0][0] == "slice":
                return args[0][3] if f[1] == "len" else args[0][4]
            raise Unsupported("builtin %s in concurrent code" % f[1])
        f = self.resolve_const(f, g)
        if isinstance(f, tuple) and f and f[0] == "constchoice":
            outs = []
            for cond, v in f[1]:
                if not isinstance(v, CClosure):
                    continue   # the cell holds a function value: other table entries cannot be stored there (typed memory)
                outs.append((cond, self.call(v.fn, args, v.binds, band(g, cond), depth + 1, ins)))
            if not outs:
                return None
            return self.merge_vals(outs)
        if isinstance(f, CClosure):
            return self.call(f.fn, args, f.binds, g, depth + 1, ins)
        raise Unsupported("call of %r" % (f,))

    # ------------------------------------------------------------------ stubs
    def stub(self, fname):
        short = fname.rsplit(".", 1)[-1]
        if self.cfg.get("queue_summary") and fname.startswith("(*github.com/panjf2000/gnet/v2/pkg/queue.lockFreeQueue)."):
            m = fname.rsplit(".", 1)[-1]
            if m == "Enqueue":
                return lambda s, args, g, ins: s.abs_enqueue(args, g, ins)
            if m == "Dequeue":
                return lambda s, args, g, ins: s.abs_dequeue(args, g, ins)
        if short == "vAwait":
            return lambda s, args, g, ins: s.emit_await(args[0], g, ins)
        if fname in self.intrinsics:
            return self.intrinsics[fname]
        if short in self.intrinsics and short.startswith("v"):
            return self.intrinsics[short]
        if fname.startswith("sync/atomic."):
            op = fname[len("sync/atomic."):]
            return lambda s, args, g, ins: s.atomic(op, args, g, ins)
        if fname.startswith("(*sync/atomic."):
            raise Unsupported("typed atomics in concurrent code: " + fname)
        if fname in ("runtime.Gosched",):
            return lambda s, args, g, ins: None
        if fname.startswith("github.com/panjf2000/gnet/v2/pkg/logging."):
            return lambda s, args, g, ins: None
        if fname == "os.NewSyscallError":
            return lambda s, args, g, ins: args[1]
        if fname == "errors.Is":
            return lambda s, args, g, ins: s.errors_is(args[0], args[1], g)
        if fname.endswith("/pkg/queue.GetTask"):
            return lambda s, args, g, ins: s.get_task(ins)
        if fname in ("(*sync.Pool).Put",):
            return lambda s, args, g, ins: None
        return None

    def errors_is(self, err, target, g):
        err = self.resolve_const(err, g)
        target = self.resolve_const(target, g)
        if err is None:
            return False
        if isinstance(err, tuple) and err and err[0] == "constchoice":
            return bor(*[band(cnd, self.same_const(v, target)) for cnd, v in err[1] if v is not None])
        return self.same_const(err, target)

    def same_const(self, a, b):
        if a is b:
            return True
        if isinstance(a, CIface) and isinstance(b, CIface) and a.tid == b.tid and isinstance(a.val, CPtr) and isinstance(b.val, CPtr):
            return eqv(a.val.oid, b.val.oid, PW) if a.val.path == b.val.path else False
        return False

    def get_task(self, ins):
        # queue.GetTask(): sync.Pool with New -> modelled as a fresh Task object per call (exclusive hand-out; a task that
        # went back to the pool is not referenced by anybody else)
        for tid, t in enumerate(self.p.types):
            if t["k"] == "named" and t["name"].endswith("/pkg/queue.Task"):
                oid = self.new_thread_obj(tid, "GetTask")
                for t2id, t2 in enumerate(self.p.types):
                    if t2["k"] == "ptr" and t2["elem"] == tid:
                        return CPtr(oid, (), t2id)
                return CPtr(oid, ())
        raise Unsupported("queue.Task type not in dump")

    def atomic(self, op, args, g, ins):
        ptr = args[0]
        pos = ins.get("pos", "") if ins else ""
        pos = "atomic." + op + " " + pos
        for suf, w in (("Pointer", PW), ("Int32", 32), ("Uint32", 32), ("Int64", 64), ("Uint64", 64), ("Uintptr", 64)):
            if op.endswith(suf):
                kind = op[:-len(suf)]
                break
        else:
            raise Unsupported("atomic " + op)

        def sc(v):
            if isinstance(v, CPtr):
                return v.oid
            return 0 if v is None else v
        pos = "@" + pos   # '@' marks an atomic operation (a native schedule point)
        if kind == "Load":
            r = self.emit("load", g, ptr, (), w, pos)
            return CPtr(r, ()) if suf == "Pointer" else r
        if kind == "Store":
            self.emit("store", g, ptr, (sc(args[1]),), w, pos)
            return None
        if kind == "CompareAndSwap":
            return self.emit("cas", g, ptr, (sc(args[1]), sc(args[2])), w, pos)
        if kind == "Add":
            return self.emit("add", g, ptr, (sc(args[1]),), w, pos)
        if kind == "Swap":
            r = self.emit("swap", g, ptr, (sc(args[1]),), w, pos)
            return CPtr(r, ()) if suf == "Pointer" else r
        raise Unsupported("atomic " + op)


def env_val(self, env, o):
    return self.val(env, o)


# ---------------------------------------------------------------------------------------------------------------------
class Schedule:
    """Phase 2: the round-robin schedule formula"""

    def __init__(self, world, threads, rounds):
        self.w = world
        self.threads = threads
        self.R = rounds
        self.T = len(threads)
        self.cons = []
        self.cs = {}
        self.round_of = {}   # (tname, idx) -> round term (0 = never)
        self.final_mem = None
        self.build()

    def read(self, mem, ptr, w):
        cands = [(oid, c) for (oid, path), c in mem.items() if path == ptr.path]
        if not is_sym(ptr.oid):
            return mem.get((ptr.oid, ptr.path), 0)
        e = bv(0, w)
        for oid, c in cands:
            cw = self.w.cellw.get((oid, ptr.path), w)
            if cw != w:
                continue
            e = z3.If(ptr.oid == oid, bv(c, w), e)
        return e

    def write(self, mem, ptr, cond, val, w):
        if not is_sym(ptr.oid):
            key = (ptr.oid, ptr.path)
            mem[key] = ite(cond, val, mem.get(key, 0), w)
            return
        for (oid, path) in list(mem):
            if path != ptr.path or self.w.cellw.get((oid, path), w) != w:
                continue
            mem[(oid, path)] = ite(band(cond, ptr.oid == oid), val, mem[(oid, path)], w)

    def build(self):
        W = 12
        self.W = W
        for t, tp in enumerate(self.threads):
            n = len(tp.stmts)
            prev = z3.BitVecVal(0, W)
            self.cs[(0, t)] = prev
            for r in range(1, self.R + 1):
                v = z3.BitVec("cs_%d_%s" % (r, tp.name), W)
                self.cons.append(z3.ULE(prev, v))
                self.cons.append(z3.ULE(v, z3.BitVecVal(n, W)))
                self.cs[(r, t)] = v
                prev = v
        mem = dict(self.w.cells)
        rw = max(3, (self.R + 1).bit_length())
        self.rw = rw
        rounds = {}
        for r in range(1, self.R + 1):
            for t, tp in enumerate(self.threads):
                lo, hi = self.cs[(r - 1, t)], self.cs[(r, t)]
                for j, s in enumerate(tp.stmts):
                    act = z3.And(z3.ULE(lo, z3.BitVecVal(j, W)), z3.ULT(z3.BitVecVal(j, W), hi))
                    key = (tp.name, j)
                    rounds[key] = z3.If(act, z3.BitVecVal(r, rw), rounds.get(key, z3.BitVecVal(0, rw)))
                    eff = band(act, s.guard)
                    w = s.bits
                    if s.kind == "load":
                        cur = self.read(mem, s.addr, w)
                        self.cons.append(z3.Implies(eff, s.res == bv(cur, w)))
                    elif s.kind == "store":
                        self.write(mem, s.addr, eff, s.args[0], w)
                    elif s.kind == "cas":
                        cur = self.read(mem, s.addr, w)
                        succ = bv(cur, w) == bv(s.args[0], w)
                        self.cons.append(z3.Implies(eff, s.res == succ))
                        self.write(mem, s.addr, band(eff, succ), s.args[1], w)
                    elif s.kind == "add":
                        cur = self.read(mem, s.addr, w)
                        nv = bv(cur, w) + bv(s.args[0], w)
                        self.cons.append(z3.Implies(eff, s.res == nv))
                        self.write(mem, s.addr, eff, nv, w)
                    elif s.kind == "swap":
                        cur = self.read(mem, s.addr, w)
                        self.cons.append(z3.Implies(eff, s.res == bv(cur, w)))
                        self.write(mem, s.addr, eff, s.args[0], w)
                    elif s.kind == "absenq":
                        q = s.addr.oid
                        N = 6
                        tkey = (q, ("abs", "tail"))
                        t = mem.get(tkey, 0)
                        for i in range(N):
                            k = (q, ("abs", "slot", i))
                            mem[k] = ite(band(eff, eqv(t, i, PW)), s.args[0], mem.get(k, 0), PW)
                        mem[tkey] = ite(eff, simp(bv(t, PW) + 1), t, PW)
                        self.absq_over = bor(getattr(self, "absq_over", False), band(eff, z3.UGE(bv(t, PW), N)))
                    elif s.kind == "absdeq":
                        q = s.addr.oid
                        N = 6
                        hkey, tkey = (q, ("abs", "head")), (q, ("abs", "tail"))
                        h, t = mem.get(hkey, 0), mem.get(tkey, 0)
                        empty = eqv(h, t, PW)
                        val = bv(0, PW)
                        for i in range(N):
                            val = z3.If(bv(h, PW) == i, bv(mem.get((q, ("abs", "slot", i)), 0), PW), val)
                        resv = ite(empty, 0, val, PW)
                        self.cons.append(z3.Implies(eff, s.res == bv(resv, PW)))
                        mem[hkey] = ite(band(eff, bnot(empty)), simp(bv(h, PW) + 1), h, PW)
                    elif s.kind == "await":
                        cur = self.read(mem, s.addr, w)
                        self.cons.append(z3.Implies(eff, bv(cur, w) != 0))   # blocked statement cannot be passed
                    else:
                        raise Unsupported("statement kind " + s.kind)
        self.round_of = rounds
        self.final_mem = mem
        # complete executions: every thread runs to its end within R rounds; no unwinding overflow
        self.finished = z3.And(*[self.cs[(self.R, t)] == z3.BitVecVal(len(tp.stmts), W) for t, tp in enumerate(self.threads)])
        # a guard is meaningful only once the thread has actually got there (all earlier loads executed)
        def reached(t, lst):
            return bor(*[band(g, z3.UGE(self.cs[(self.R, t)], z3.BitVecVal(pos, W))) for g, pos in lst])
        self.unw_of = [reached(t, tp.unw_list) for t, tp in enumerate(self.threads)]
        self.unw = bor(*self.unw_of)
        self.panics = bor(*[reached(t, tp.panic_list) for t, tp in enumerate(self.threads)])

    def time_lt(self, ta, ra, tb, rb):
        """(ra, ta) < (rb, tb) lexicographically; ta, tb are thread indices (python ints)"""
        if ta < tb:
            return z3.ULE(ra, rb)
        return z3.ULT(ra, rb)
