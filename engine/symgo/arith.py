"""Integer semantics: Int-with-explicit-wrap back end and faithful bit-vector back end."""
import z3
from .vals import Unsupported, is_sym


def norm(x, bits, signed):
    x &= (1 << bits) - 1
    if signed and x >= 1 << (bits - 1):
        x -= 1 << bits
    return x


def simp(e):
    if is_sym(e):
        e = z3.simplify(e)
        if z3.is_int_value(e):
            return e.as_long()
        if z3.is_bv_value(e):
            return e.as_long()  # unsigned; caller normalises
        if z3.is_true(e):
            return True
        if z3.is_false(e):
            return False
    return e


def bnot(c):
    if isinstance(c, bool):
        return not c
    return z3.Not(c)


def band(*cs):
    out = []
    for c in cs:
        if c is True:
            continue
        if c is False:
            return False
        out.append(c)
    if not out:
        return True
    if len(out) == 1:
        return out[0]
    return z3.And(*out)


def bor(*cs):
    out = []
    for c in cs:
        if c is False:
            continue
        if c is True:
            return True
        out.append(c)
    if not out:
        return False
    if len(out) == 1:
        return out[0]
    return z3.Or(*out)


def ite(c, a, b, mk):
    """mk converts python scalars to z3 of the right sort"""
    if c is True:
        return a
    if c is False:
        return b
    if not is_sym(a) and not is_sym(b) and a == b:
        return a
    if isinstance(a, bool) or isinstance(b, bool) or (is_sym(a) and z3.is_bool(a)) or (is_sym(b) and z3.is_bool(b)):
        a2 = z3.BoolVal(a) if isinstance(a, bool) else a
        b2 = z3.BoolVal(b) if isinstance(b, bool) else b
        return z3.If(c, a2, b2)
    return z3.If(c, mk(a), mk(b))


class IntMode:
    """Go integers as SMT Ints, wrapped explicitly to the machine width after every operation."""
    name = "int"

    def trailing_zeros(self, x, bits):
        if isinstance(x, int):
            return bits if x == 0 else (x & -x).bit_length() - 1
        e = z3.IntVal(bits)
        for i in range(bits - 1, -1, -1):
            e = z3.If((x / (1 << i)) % 2 == 1, z3.IntVal(i), e)
        return e

    def ones_count(self, x, bits):
        if isinstance(x, int):
            return bin(x & ((1 << bits) - 1)).count("1")
        return z3.Sum([(x / (1 << i)) % 2 for i in range(bits)])

    def const(self, v, bits, signed):
        return norm(v, bits, signed)

    def mk(self, x, bits=64):
        return z3.IntVal(x) if isinstance(x, int) else x

    def fresh(self, name, bits, signed):
        return z3.Int(name)

    def range_constraint(self, v, bits, signed):
        if signed:
            return z3.And(v >= -(1 << (bits - 1)), v <= (1 << (bits - 1)) - 1)
        return z3.And(v >= 0, v <= (1 << bits) - 1)

    def wrap1(self, x, bits, signed):
        """x is the exact result of ONE add/sub of in-range operands."""
        if isinstance(x, int):
            return norm(x, bits, signed)
        M = 1 << bits
        if signed:
            hi = (1 << (bits - 1)) - 1
            lo = -(1 << (bits - 1))
            return z3.If(x > hi, x - M, z3.If(x < lo, x + M, x))
        return z3.If(x >= M, x - M, z3.If(x < 0, x + M, x))

    def wrapm(self, x, bits, signed):
        if isinstance(x, int):
            return norm(x, bits, signed)
        M = 1 << bits
        if signed:
            h = 1 << (bits - 1)
            return ((x + h) % M) - h
        return x % M

    def binop(self, op, x, y, bits, signed):
        cx, cy = isinstance(x, int), isinstance(y, int)
        if cx and cy:
            return self._concrete(op, x, y, bits, signed)
        if op == "+":
            return self.wrap1(simp(self.mk(x) + self.mk(y)), bits, signed)
        if op == "-":
            return self.wrap1(simp(self.mk(x) - self.mk(y)), bits, signed)
        if op == "*":
            if cx or cy:
                return self.wrapm(self.mk(x) * self.mk(y), bits, signed)
            raise Unsupported("symbolic*symbolic multiply in Int mode")
        if op in ("/", "%"):
            return self._divmod(op, x, y, bits, signed)
        if op in ("<<", ">>"):
            return self._shift(op, x, y, bits, signed)
        if op in ("&", "|", "^", "&^"):
            return self._bitop(op, x, y, bits, signed)
        raise Unsupported("binop " + op)

    def _concrete(self, op, x, y, bits, signed):
        if op == "+":
            r = x + y
        elif op == "-":
            r = x - y
        elif op == "*":
            r = x * y
        elif op == "/":
            q = abs(x) // abs(y)
            r = q if (x >= 0) == (y >= 0) else -q
        elif op == "%":
            m = abs(x) % abs(y)
            r = m if x >= 0 else -m
        elif op == "<<":
            r = x << y if y < bits else 0
        elif op == ">>":
            r = x >> y if y < 2 * bits else (x >> (2 * bits))
        elif op == "&":
            r = x & y
        elif op == "|":
            r = x | y
        elif op == "^":
            r = x ^ y
        elif op == "&^":
            r = x & ~y
        else:
            raise Unsupported("binop " + op)
        return norm(r, bits, signed)

    def _divmod(self, op, x, y, bits, signed):
        X, Y = self.mk(x), self.mk(y)
        if op == "%" and not isinstance(y, int):
            # symbolic modulus: peel off the two linear cases 0 <= x < y and y <= x < 2y (cursor wrap-around),
            # so that the non-linear mod term only matters outside them
            if signed:
                ax = z3.If(X >= 0, X, -X)
                ay = z3.If(Y >= 0, Y, -Y)
                m = ax % ay
                gen = z3.If(X >= 0, m, -m)
            else:
                gen = X % Y
            return z3.If(z3.And(X >= 0, X < Y), X, z3.If(z3.And(Y > 0, X >= Y, X - Y < Y), X - Y, gen))
        if not signed:
            return X / Y if op == "/" else X % Y
        if isinstance(y, int) and y > 0:
            # truncated division by positive constant
            q0 = z3.If(X >= 0, X / Y, -((-X) / Y))
            if op == "/":
                return q0
            return z3.If(X >= 0, X % Y, -((-X) % Y))
        ax = z3.If(X >= 0, X, -X)
        ay = z3.If(Y >= 0, Y, -Y)
        if op == "/":
            q0 = ax / ay
            # MinInt / -1 wraps
            return self.wrapm(z3.If((X >= 0) == (Y >= 0), q0, -q0), bits, signed)
        m = ax % ay
        return z3.If(X >= 0, m, -m)

    def pow2_ladder(self, k, bits):
        """2**k for symbolic k in [0,bits); 0 beyond"""
        e = z3.IntVal(0)
        for i in range(bits - 1, -1, -1):
            e = z3.If(k == i, z3.IntVal(1 << i), e)
        return e

    def _shift(self, op, x, y, bits, signed):
        if isinstance(y, int):
            if op == "<<":
                if y >= bits:
                    return 0
                return self.wrapm(self.mk(x) * (1 << y), bits, signed)
            if y >= bits:
                if signed:
                    return z3.If(self.mk(x) < 0, z3.IntVal(-1), z3.IntVal(0))
                return 0
            return self.mk(x) / (1 << y)  # floor division == arithmetic shift
        # symbolic count
        if isinstance(x, int) and op == "<<":
            p = self.pow2_ladder(y, bits)
            return self.wrapm(p * x, bits, signed)
        if op == ">>":
            X = self.mk(x)
            e = z3.If(X < 0, z3.IntVal(-1), z3.IntVal(0)) if signed else z3.IntVal(0)
            for i in range(bits - 1, -1, -1):
                e = z3.If(y == i, X / (1 << i), e)
            return e
        raise Unsupported("symbolic<<symbolic in Int mode")

    def _bitop(self, op, x, y, bits, signed):
        # supported: & with a constant low mask (2^k-1); everything else through int2bv
        if op == "&":
            for a, b in ((x, y), (y, x)):
                if isinstance(b, int) and b >= 0 and (b & (b + 1)) == 0:
                    return self.mk(a) % (b + 1)
                if isinstance(b, int) and b > 0 and (b & (b - 1)) == 0:
                    # single bit: (a div b) mod 2 * b
                    return ((self.mk(a) / b) % 2) * b
        # generic fallback: go through bit-vectors (slow, but exact)
        X = z3.Int2BV(self.mk(x), bits)
        Y = z3.Int2BV(self.mk(y), bits)
        r = {"&": X & Y, "|": X | Y, "^": X ^ Y, "&^": X & ~Y}[op]
        return z3.BV2Int(r, is_signed=signed)

    def neg(self, x, bits, signed):
        if isinstance(x, int):
            return norm(-x, bits, signed)
        return self.wrap1(-x, bits, signed)

    def bitnot(self, x, bits, signed):
        if isinstance(x, int):
            return norm(~x, bits, signed)
        if signed:
            return -x - 1
        return ((1 << bits) - 1) - x

    def cmp(self, op, x, y, signed=True):
        if isinstance(x, int) and isinstance(y, int):
            return {"==": x == y, "!=": x != y, "<": x < y, "<=": x <= y, ">": x > y, ">=": x >= y}[op]
        X, Y = self.mk(x), self.mk(y)
        return simp({"==": X == Y, "!=": X != Y, "<": X < Y, "<=": X <= Y, ">": X > Y, ">=": X >= Y}[op])

    def convert(self, x, fbits, fsigned, tbits, tsigned):
        if isinstance(x, int):
            return norm(x, tbits, tsigned)
        if fsigned == tsigned and tbits >= fbits:
            return x
        if (not fsigned) and tsigned and tbits > fbits:
            return x
        return self.wrapm(x, tbits, tsigned)

    def bits_len(self, x, bits):
        """math/bits.Len*: number of bits needed to represent unsigned x"""
        if isinstance(x, int):
            return x.bit_length()
        e = z3.IntVal(bits)
        for i in range(bits - 1, -1, -1):
            e = z3.If(x < (1 << i), z3.IntVal(i), e)
        return e


class BVMode:
    name = "bv"

    def trailing_zeros(self, x, bits):
        if isinstance(x, int):
            return bits if x == 0 else (x & -x).bit_length() - 1
        e = z3.BitVecVal(bits, 64)
        for i in range(bits - 1, -1, -1):
            e = z3.If(z3.Extract(i, i, x) == 1, z3.BitVecVal(i, 64), e)
        return e

    def ones_count(self, x, bits):
        if isinstance(x, int):
            return bin(x & ((1 << bits) - 1)).count("1")
        return z3.Sum([z3.ZeroExt(63, z3.Extract(i, i, x)) for i in range(bits)])

    def const(self, v, bits, signed):
        return norm(v, bits, signed)

    def mk(self, x, bits=64):
        return z3.BitVecVal(x, bits) if isinstance(x, int) else x

    def fresh(self, name, bits, signed):
        return z3.BitVec(name, bits)

    def range_constraint(self, v, bits, signed):
        return True

    def _fix(self, r, bits, signed):
        r = simp(r)
        if isinstance(r, int) and not isinstance(r, bool):
            return norm(r, bits, signed)
        return r

    def binop(self, op, x, y, bits, signed):
        if isinstance(x, int) and isinstance(y, int):
            return IntMode._concrete(None, op, x, y, bits, signed)
        X = self.mk(x, bits)
        if op in ("<<", ">>"):
            ybits = y.size() if is_sym(y) else bits
            Y = self.mk(y, ybits) if not is_sym(y) else y
            if ybits < bits:
                Y = z3.ZeroExt(bits - ybits, Y)
            elif ybits > bits:
                big = z3.UGE(Y, z3.BitVecVal(bits, ybits))
                Yt = z3.Extract(bits - 1, 0, Y)
                if op == "<<":
                    return self._fix(z3.If(big, z3.BitVecVal(0, bits), X << Yt), bits, signed)
                if signed:
                    return self._fix(z3.If(big, X >> (bits - 1), X >> Yt), bits, signed)
                return self._fix(z3.If(big, z3.BitVecVal(0, bits), z3.LShR(X, Yt)), bits, signed)
            if op == "<<":
                return self._fix(X << Y, bits, signed)
            return self._fix((X >> Y) if signed else z3.LShR(X, Y), bits, signed)
        Y = self.mk(y, bits)
        if op == "+":
            r = X + Y
        elif op == "-":
            r = X - Y
        elif op == "*":
            r = X * Y
        elif op == "/":
            r = (X / Y) if signed else z3.UDiv(X, Y)
        elif op == "%":
            r = z3.SRem(X, Y) if signed else z3.URem(X, Y)
        elif op == "&":
            r = X & Y
        elif op == "|":
            r = X | Y
        elif op == "^":
            r = X ^ Y
        elif op == "&^":
            r = X & ~Y
        else:
            raise Unsupported("binop " + op)
        return self._fix(r, bits, signed)

    def neg(self, x, bits, signed):
        if isinstance(x, int):
            return norm(-x, bits, signed)
        return -x

    def bitnot(self, x, bits, signed):
        if isinstance(x, int):
            return norm(~x, bits, signed)
        return ~x

    def cmp(self, op, x, y, signed=True):
        if isinstance(x, int) and isinstance(y, int):
            return {"==": x == y, "!=": x != y, "<": x < y, "<=": x <= y, ">": x > y, ">=": x >= y}[op]
        bits = x.size() if is_sym(x) else y.size()
        X, Y = self.mk(x, bits), self.mk(y, bits)
        if op == "==":
            r = X == Y
        elif op == "!=":
            r = X != Y
        elif signed:
            r = {"<": X < Y, "<=": X <= Y, ">": X > Y, ">=": X >= Y}[op]
        else:
            r = {"<": z3.ULT(X, Y), "<=": z3.ULE(X, Y), ">": z3.UGT(X, Y), ">=": z3.UGE(X, Y)}[op]
        return simp(r)

    def convert(self, x, fbits, fsigned, tbits, tsigned):
        if isinstance(x, int):
            return norm(x, tbits, tsigned)
        if tbits == fbits:
            return x
        if tbits < fbits:
            return z3.Extract(tbits - 1, 0, x)
        if fsigned:
            return z3.SignExt(tbits - fbits, x)
        return z3.ZeroExt(tbits - fbits, x)

    def bits_len(self, x, bits):
        if isinstance(x, int):
            return x.bit_length()
        e = z3.BitVecVal(bits, 64)
        for i in range(bits - 1, -1, -1):
            e = z3.If(z3.ULT(x, z3.BitVecVal(1 << i, bits)), z3.BitVecVal(i, 64), e)
        return e
