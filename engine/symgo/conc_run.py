"""Driver for engine B properties (C13, C03): build thread programs from go/ssa, encode schedules, query z3."""
import itertools
import json
import os
import sys
import time
import multiprocessing as mp
import z3

from . import run as R
from .engine import Prog, Executor, State, Unsupported
from .vals import Ptr, SliceV, Iface, Closure, StructV, Bytes, Opaque, MapRef
from .conc import World, Conc, Schedule, CPtr, CIface, CClosure, band, bor, bnot, bv, PW, is_sym, simp


def build_world(prog, unit, pkgpath):
    """run the harness' VT_Setup sequentially (engine A, concrete) and convert its heap into the object universe"""
    ex = Executor(prog, mode="int", unwind=64, cfg=dict(unit.get("cfg", {})))
    for fname, val in unit.get("stub_values", {}).items():
        ex.stubs[fname] = (lambda v: (lambda ex_, st_, args_, ins_: v))(val)
    ex.objtypes = {}
    orig_alloc = ex.i_Alloc

    def i_alloc(st, fr, ins):
        orig_alloc(st, fr, ins)
        ex.objtypes[fr.locals[ins["name"]].obj] = prog.T(ins["t"])["elem"]
    ex.i_Alloc = i_alloc
    st = State()
    st = ex.run_inits(st, unit.get("init_pkgs", [pkgpath]))
    s0 = ex.start(pkgpath + "." + unit.get("setup", "VT_Setup"), st)
    finals = ex.explore(s0, init_mode=True)
    if len(finals) != 1 or ex.inconclusive:
        raise Unsupported("setup did not complete on one path: %s" % ex.inconclusive[:3])
    heap = finals[0].heap
    w = World(prog)
    # types of globals
    for name, g in prog.globals.items():
        key = "g:" + name
        if key in heap:
            ex.objtypes[key] = prog.T(g["t"])["elem"]

    def oid_of(name):
        if name in w.amap:
            return w.amap[name]
        tid = ex.objtypes.get(name)
        if tid is None:
            raise Unsupported("heap object %s of unknown type" % name)
        oid = w.new_obj(tid, name)
        w.amap[name] = oid
        todo.append(name)
        return oid

    def conv(v):
        if v is None or isinstance(v, (int, bool)):
            return v
        if isinstance(v, Ptr):
            if v.path:
                raise Unsupported("interior pointer in initial heap")
            return CPtr(oid_of(v.obj), ())
        if isinstance(v, Iface):
            return CIface(v.tid, conv(v.val))
        if isinstance(v, Closure):
            return CClosure(v.fn, [conv(b) for b in v.binds])
        if isinstance(v, (StructV, tuple)):
            return tuple(conv(x) for x in v)
        if isinstance(v, Opaque):
            return None
        return v

    todo = []

    def drain():
        while todo:
            name = todo.pop()
            oid = w.amap[name]
            tid = ex.objtypes[name]
            tree = heap[name]
            for path, lt in w.leaf_paths(tid):
                v = tree
                ok = True
                for pth in path:
                    if isinstance(v, Opaque):
                        ok = False
                        break
                    v = v[pth]
                if not ok or isinstance(v, Opaque):
                    continue
                width = w.width_of(lt)
                if width is None:
                    w.cells[(oid, path)] = conv(v)
                    w.cellw[(oid, path)] = None
                else:
                    cv = conv(v)
                    if isinstance(cv, CPtr):
                        cv = cv.oid
                    if cv is None:
                        cv = 0
                    if isinstance(cv, bool):
                        cv = 1 if cv else 0
                    w.cells[(oid, path)] = cv & ((1 << width) - 1) if isinstance(cv, int) else cv
                    w.cellw[(oid, path)] = width

    def lazy_global(name):
        key = "g:" + name
        if key not in heap:
            # never touched by the initialisers: zero value
            g = prog.globals.get(name)
            if g is None:
                raise Unsupported("global %s unknown" % name)
            et = prog.T(g["t"])["elem"]
            heap[key] = ex.zero(et)
            ex.objtypes[key] = et
        oid = oid_of(key)
        drain()
        return oid
    w.lazy_global = lazy_global
    for rname in [k for k in heap if k.startswith("g:" + pkgpath + ".v")]:
        oid_of(rname)
    drain()
    w.immutable = {w.amap["g:" + pkgpath + "." + n] for n in unit.get("immutable_globals", []) if ("g:" + pkgpath + "." + n) in w.amap}
    return w


def lin_condition(sched, threads, tindex):
    """negated linearizability: no permutation of the operations that respects real-time order and per-thread program
    order replays on a sequential FIFO with the observed results"""
    ops = []
    for tp in threads:
        for o in tp.ops:
            ops.append((tp, o))
    n = len(ops)
    rw = sched.rw
    inv, resp = {}, {}
    for tp, o in ops:
        opid = o["id"]
        first = None
        last = z3.BitVecVal(0, rw)
        for s in tp.stmts[o["first"]:o["last"]]:
            r = sched.round_of[(tp.name, s.idx)]
            if first is None:
                first = r   # the first statement of an operation is unconditional
            g = s.guard
            last = r if g is True else z3.If(g, r, last)
        inv[opid], resp[opid] = first, last

    def hb(a, b):   # a returned before b was invoked
        (ta, oa), (tb, ob) = a, b
        if ta is tb:
            return oa["first"] < ob["first"]
        return sched.time_lt(tindex[ta.name], resp[oa["id"]], tindex[tb.name], inv[ob["id"]])
    hbm = {}
    for a in ops:
        for b in ops:
            if a is not b:
                hbm[(a[1]["id"], b[1]["id"])] = hb(a, b)
    legal_any = []
    nperm = 0
    for perm in itertools.permutations(range(n)):
        # program order within a thread must be respected
        ok = True
        pos = {}
        for i, k in enumerate(perm):
            pos[k] = i
        for i in range(n):
            for j in range(n):
                if i != j and ops[i][0] is ops[j][0] and ops[i][1]["first"] < ops[j][1]["first"] and pos[i] > pos[j]:
                    ok = False
        if not ok:
            continue
        nperm += 1
        conds = []
        for i in range(n):
            for j in range(i + 1, n):
                a, b = ops[perm[i]], ops[perm[j]]   # a placed before b: b must not have returned before a was invoked
                h = hbm[(b[1]["id"], a[1]["id"])]
                if h is True:
                    conds.append(False)
                elif h is not False:
                    conds.append(z3.Not(h))
        # sequential FIFO replay
        fifo = []
        for k in perm:
            tp, o = ops[k]
            if o["kind"] == 0:
                fifo.append(o["argptr"])
            else:
                expect = fifo.pop(0) if fifo else 0
                res = o["result"]
                ro = res.oid if isinstance(res, CPtr) else (0 if res is None else res)
                conds.append(bv(ro, PW) == bv(expect, PW) if (is_sym(ro) or is_sym(expect)) else ro == expect)
        legal_any.append(band(*conds))
    return bnot(bor(*legal_any)), nperm


def encode_config(prog, unit, pkgpath, cfgc):
    """returns dict of results for one thread configuration"""
    t0 = time.time()
    w = build_world(prog, unit, pkgpath)
    ccfg = dict(unit.get("cfg", {}))
    ccfg["unwind_fn"] = cfgc.get("unwind_fn", {})
    ccfg["queue_summary"] = cfgc.get("queue_summary", False)
    c = Conc(prog, w, unwind=cfgc.get("unwind", 3), cfg=ccfg)
    c.w_written_cells = set()
    install_intrinsics(c, w)
    threads = []
    for i, tn in enumerate(cfgc["threads"]):
        tp = c.run_thread("T%d" % i, pkgpath + "." + tn)
        threads.append(tp)
    sched = Schedule(w, threads, cfgc.get("rounds", 3))
    tindex = {tp.name: i for i, tp in enumerate(threads)}
    res = {"config": cfgc["name"], "threads": cfgc["threads"], "rounds": sched.R, "unwind": c.U,
           "statements": [len(tp.stmts) for tp in threads], "objects": len(w.objs), "queries": [],
           "functions": sorted(c.stats["funcs"]), "violations": [], "inconclusive": []}
    oracle = unit.get("oracle", "queue")
    base = sched.cons + ([sched.finished] if oracle == "queue" else [])
    rlimit = int(unit.get("cfg", {}).get("rlimit", 0))

    def query(name, extra, expect):
        s = z3.SolverFor("QF_BV")
        if rlimit:
            s.set("rlimit", rlimit)
        for x in base:
            s.add(x)
        for x in extra:
            if x is True:
                continue
            s.add(x if x is not False else z3.BoolVal(False))
        tq = time.time()
        r = str(s.check())
        dt = round(time.time() - tq, 2)
        res["queries"].append({"query": name, "verdict": r, "expected": expect, "time_s": dt})
        return r, (s.model() if r == "sat" else None)

    if oracle == "wakeup":
        for label, cond, expect in wakeup_conditions(unit, cfgc, sched, threads, tindex, w, c, prog, pkgpath):
            r, m = query(label, cond, expect)
            if expect == "info":
                continue
            if r != expect:
                if expect == "unsat" and r == "sat":
                    if label.startswith("bound:"):
                        res["inconclusive"].append(label + " (sat)")
                    else:
                        res["violations"].append({"label": label, "model": model_summary(m, sched, threads)})
                else:
                    res["inconclusive"].append("%s: solver answered %s, expected %s" % (label, r, expect))
        res["wall"] = round(time.time() - t0, 2)
        res["thread_names"] = [tp.name for tp in threads]
        res["ops"] = {}
        return res
    # vacuity: some complete execution exists
    r, _ = query("reach: all threads finish within the bound", [bnot(sched.unw)], "sat")
    if r != "sat":
        res["inconclusive"].append("no complete execution within the bound (%s)" % r)
    # unwinding: retry loops never need more than U iterations within R rounds
    r, _ = query("unwinding: some retry loop exceeds U iterations", [sched.unw], "unsat")
    if r != "unsat":
        res["inconclusive"].append("unwinding bound U=%d insufficient for R=%d (%s)" % (c.U, sched.R, r))
    r, m = query("no panic", [bnot(sched.unw), sched.panics], "unsat")
    if r == "sat":
        res["violations"].append({"label": "C13.no_panic", "model": model_summary(m, sched, threads)})
    elif r != "unsat":
        res["inconclusive"].append("panic query " + r)
    # property queries
    for label, cond in property_conditions(unit, cfgc, sched, threads, tindex, w, c, prog, pkgpath):
        r, m = query(label, [bnot(sched.unw), cond], "unsat")
        if r == "sat":
            res["violations"].append({"label": label, "model": model_summary(m, sched, threads)})
        elif r != "unsat":
            res["inconclusive"].append("%s: solver answered %s" % (label, r))
    res["wall"] = round(time.time() - t0, 2)
    res["thread_names"] = [tp.name for tp in threads]
    res["ops"] = {o["id"]: (ti, oi, o["kind"], o["arg"]) for ti, tp in enumerate(threads) for oi, o in enumerate(tp.ops)}
    return res


def install_intrinsics(c, w):
    def vOpBegin(s, args, g, ins):
        opid, kind, arg = args
        s.cur_op = opid
        s.cur.ops.append({"id": opid, "kind": kind, "arg": arg, "first": len(s.cur.stmts), "last": None, "result": None, "argptr": None})
        return None

    def vOpEnd(s, args, g, ins):
        opid, res = args
        o = [x for x in s.cur.ops if x["id"] == opid][0]
        o["last"] = len(s.cur.stmts)
        o["result"] = res
        s.cur_op = None
        return None

    def vObserveLen(s, args, g, ins):
        s.cur.obs["len"] = args[0]
        s.cur.obs["empty"] = args[1]
        return None
    c.intrinsics["vOpBegin"] = vOpBegin
    c.intrinsics["vOpEnd"] = vOpEnd
    c.intrinsics["vObserveLen"] = vObserveLen
    # harness globals are immutable once the threads run
    orig = c.may_be_written

    def mbw(ptr):
        if not is_sym(ptr.oid) and ptr.oid in w.immutable:
            return False
        if not is_sym(ptr.oid) and w.cellw.get((ptr.oid, ptr.path), 0) is None and (ptr.oid, ptr.path) not in c.w_written_cells:
            return False   # non-scalar leaf of an initial object: constant
        return True
    c.may_be_written = mbw


def property_conditions(unit, cfgc, sched, threads, tindex, w, c, prog, pkgpath):
    """C13 obligations"""
    out = []
    # argument pointers of enqueues: the task object passed (a constant load from the immutable harness table)
    for tp in threads:
        for o in tp.ops:
            if o["kind"] == 0:
                tasks_oid = w.amap["g:" + pkgpath + ".vTasks"]
                o["argptr"] = w.cells[(tasks_oid, (o["arg"],))]
    negl, nperm = lin_condition(sched, threads, tindex)
    out.append(("C13.linearizable (%d candidate orders)" % nperm, negl))
    # quiescence: real Length()/IsEmpty() evaluated after every thread finished
    qt = c.run_thread("TQ", pkgpath + ".VT_Quiescent")
    obs = run_after(sched, qt)
    enq = sum(1 for tp in threads for o in tp.ops if o["kind"] == 0)
    deq_ok = []
    for tp in threads:
        for o in tp.ops:
            if o["kind"] == 1:
                r = o["result"]
                ro = r.oid if isinstance(r, CPtr) else 0
                deq_ok.append(z3.If(bv(ro, PW) != 0, z3.BitVecVal(1, 64), z3.BitVecVal(0, 64)))
    expect = z3.BitVecVal(enq, 64) - (z3.Sum(deq_ok) if deq_ok else z3.BitVecVal(0, 64))
    ln = obs["len"]
    emp = obs["empty"]
    out.append(("C13.length_at_quiescence", bv(ln, 64) != expect))
    out.append(("C13.isempty_agrees_at_quiescence", emp != (expect == 0) if is_sym(emp) else (z3.BoolVal(emp) != (expect == 0))))
    return out


def run_after(sched, tp):
    """execute an observer thread sequentially on the final memory; returns its observations with load results substituted"""
    mem = dict(sched.final_mem)
    subs = []
    for s in tp.stmts:
        if s.kind == "load":
            cur = sched.read(mem, s.addr, s.bits)
            subs.append((s.res, bv(cur, s.bits)))
        else:
            raise Unsupported("observer thread may only read")
    obs = {}
    for k, v in tp.obs.items():
        obs[k] = z3.substitute(v, *subs) if is_sym(v) and subs else v
    return obs


def model_summary(m, sched, threads):
    out = {"schedule": []}
    for r in range(1, sched.R + 1):
        for t, tp in enumerate(threads):
            lo = m.eval(sched.cs[(r - 1, t)], model_completion=True).as_long()
            hi = m.eval(sched.cs[(r, t)], model_completion=True).as_long()
            if hi > lo:
                steps = []
                for s in tp.stmts[lo:hi]:
                    g = s.guard
                    gv = True if g is True else z3.is_true(m.eval(g, model_completion=True))
                    if gv:
                        steps.append("%s %s" % (s.kind, s.pos))
                out["schedule"].append({"round": r, "thread": tp.name, "positions": [lo, hi], "effective_steps": len(steps),
                                        "atomic_steps": sum(1 for x in steps if " @" in x), "steps": steps[:12]})
    res = {}
    for tp in threads:
        for o in tp.ops:
            r = o["result"]
            if isinstance(r, CPtr):
                v = r.oid
                res["op%d" % o["id"]] = m.eval(bv(v, PW), model_completion=True).as_long() if is_sym(v) else v
    out["dequeue_results(object ids)"] = res
    return out


_UNITS = {}


def _worker(args):
    prog_path, uname, pkgpath, cfgc = args
    unit = _UNITS[uname]
    try:
        prog = Prog(json.load(open(prog_path)))
        return encode_config(prog, unit, pkgpath, cfgc)
    except Exception as e:
        import traceback
        return {"config": cfgc["name"], "violations": [], "inconclusive": ["engine error: %s: %s" % (type(e).__name__, e)], "trace": traceback.format_exc(), "queries": [], "functions": [], "statements": []}


def check_conc(prop, tier, spec, only=None):
    t_start = time.time()
    seed = int(os.environ.get("VERIF_SEED", "0") or 0)
    results = []
    for unit in spec["units"]:
        if tier == "quick" and unit.get("tier") == "thorough":
            continue
        # dump with the thread entry points as roots
        names = set([unit.get("setup", "VT_Setup")] + unit.get("extra_fns", []))
        cfgs = [c for c in unit["configs"] if not (tier == "quick" and c.get("tier") == "thorough")]
        if only:
            import re
            cfgs = [c for c in cfgs if re.search(only, c["name"])]
        for c in cfgs:
            names.update(c["threads"])
        unit["_roots"] = sorted(names)
        out, harnesses, pkgpath, dt = R.dump_unit(prop, unit, roots=sorted(names))
        _UNITS[unit["name"]] = unit
        jobs = [(out, unit["name"], pkgpath, c) for c in cfgs]
        nproc = min(len(jobs), int(os.environ.get("VERIF_JOBS", "16")))
        if nproc > 1:
            with mp.get_context("fork").Pool(nproc) as pool:
                rs = pool.map(_worker, jobs, chunksize=1)
        else:
            rs = [_worker(j) for j in jobs]
        for r in rs:
            r["unit"] = unit["name"]
            if os.environ.get("VERIF_VERBOSE"):
                print("  [%6.1fs] %s stmts=%s queries=%s viol=%d inconcl=%s" % (time.time() - t_start, r["config"], r.get("statements"), [(q["verdict"], q["time_s"]) for q in r["queries"]], len(r["violations"]), r["inconclusive"][:2]), file=sys.stderr)
                if r.get("trace"):
                    print(r["trace"], file=sys.stderr)
        results.extend(rs)
    return finish_conc(prop, tier, seed, spec, results, time.time() - t_start)


def finish_conc(prop, tier, seed, spec, results, wall):
    viol = []
    inconcl = []
    nq = 0
    stime = 0.0
    funcs = set()
    samples = []
    for r in results:
        for v in r["violations"]:
            viol.append((r["config"], v))
        for m in r["inconclusive"]:
            inconcl.append("%s: %s" % (r["config"], m))
        nq += len(r["queries"])
        stime += sum(q["time_s"] for q in r["queries"])
        funcs.update(r.get("functions", []))
    rd = os.path.join(R.EVID, "replay")
    os.makedirs(rd, exist_ok=True)
    out_viol = []
    spurious = []
    from . import conc_replay
    byname = {r["config"]: r for r in results}
    for i, (cfgname, v) in enumerate(viol):
        tp = os.path.join(rd, "%s-%s-%d.json" % (prop, cfgname, i))
        rr = byname[cfgname]
        unit = [u for u in spec["units"] if u["name"] == rr["unit"]][0]
        cfgc = dict([c for c in unit["configs"] if c["name"] == cfgname][0])
        cfgc["_ops"] = {int(k): tuple(x) for k, x in rr["ops"].items()}
        segs = conc_replay.segments_from_model(v["model"], rr["thread_names"])
        json.dump({"property": prop, "unit": rr["unit"], "config": cfgname, "label": v["label"], "kind": "schedule", "thread_fns": cfgc["threads"], "ops": {str(k): list(x) for k, x in cfgc["_ops"].items()},
                   "segments": segs, "model": v["model"]}, open(tp, "w"), indent=1, default=str)
        replayer = getattr(conc_replay, unit.get("replayer", "replay_queue"))
        try:
            ok, detail = replayer(prop, unit, cfgc, v, tp)
        except Exception as e:
            ok, detail = False, "replay failed: %s" % e
        v["replay"] = detail
        if ok:
            out_viol.append((cfgname, v, tp))
        else:
            spurious.append((cfgname, v, detail))
    for cfgname, v, detail in spurious:
        print("SPURIOUS property=%s config=%s obligation=%s native-replay: %s" % (prop, cfgname, v["label"].split(" (")[0], detail[:300]))
        inconcl.append("%s: counterexample schedule for %s did not reproduce natively" % (cfgname, v["label"].split(" (")[0]))
    known = [k for k in R.load_known() if k.get("property") == prop and k.get("status") == "open"]
    printed = set()
    nv = 0
    for cfgname, v, tp in out_viol:
        lbl = v["label"].split(" (")[0]
        kf = [k for k in known if k.get("harness") == cfgname and k.get("label") == lbl]
        if kf:
            print("KNOWN-FINDING: property=%s %s [config=%s label=%s]" % (prop, kf[0].get("what", ""), cfgname, lbl))
            continue
        if (cfgname, lbl) in printed:
            continue
        printed.add((cfgname, lbl))
        nv += 1
        print("VIOLATION property=%s replay=%s" % (prop, tp))
        print("  config=%s obligation=%s native-replay: %s" % (cfgname, lbl, str(v.get("replay"))[:300]))
    for m in sorted(set(inconcl)):
        print("INCONCLUSIVE property=%s %s" % (prop, m))
    transitions = sum(sum(r.get("statements") or [0]) * r.get("rounds", 1) for r in results)
    ev = {
        "property_id": prop, "tier": tier, "seed": seed, "level": spec.get("level", "model_checking"),
        "coverage": {
            "explanation": spec.get("explanation", ""),
            "evaluations": max(nq, 1),
            "distinct_nontrivial": sum(1 for r in results for q in r["queries"] if q["verdict"] in ("sat", "unsat")),
            "rule": "one evaluation = one SMT query over ALL schedules of a thread configuration within the bound (symbolic context-switch points); non-trivial = the solver returned a definite sat/unsat answer",
            "obligations": nq, "discharged": sum(1 for r in results for q in r["queries"] if q["verdict"] == q["expected"] or q["expected"] == "info"),
            "queries": nq, "solver_time_s": round(stime, 2),
            "functions_encoded": sorted(funcs),
            "configurations": [{k: r.get(k) for k in ("config", "threads", "rounds", "unwind", "statements", "objects", "queries", "wall", "inconclusive")} for r in results],
            "bounds": spec.get("bounds", {}), "outside": spec.get("outside", []),
            "samples": [{"config": r["config"], "threads": r.get("threads"), "queries": r["queries"][:3]} for r in results[:3]] or [{"note": "none"}],
            "exhaustive": False,
        },
        "assumptions": spec.get("assumptions", []), "wall_s": round(wall, 2), "violations": nv,
    }
    os.makedirs(R.EVID, exist_ok=True)
    json.dump(ev, open(os.path.join(R.EVID, prop + ".json"), "w"), indent=1, default=str)
    if nv:
        return 1
    if inconcl:
        return 2
    print("OK property=%s tier=%s configurations=%d queries=%d wall=%.1fs" % (prop, tier, len(results), nq, wall))
    return 0


def wakeup_conditions(unit, cfgc, sched, threads, tindex, w, c, prog, pkgpath):
    """C03 obligations over the final state of an arbitrary schedule prefix"""
    W = sched.W
    loop = threads[-1]                      # by convention the event loop is the last thread
    producers = threads[:-1]
    prod_done = band(*[sched.cs[(sched.R, tindex[tp.name])] == z3.BitVecVal(len(tp.stmts), W) for tp in producers])
    no_unw = bnot(sched.unw)
    mem = sched.final_mem

    def gcell(name, idx=None):
        oid = w.amap["g:" + pkgpath + "." + name]
        return mem[(oid, (idx,) if idx is not None else ())]
    ntask = cfgc.get("tasks", 2)
    executed = [bv(gcell("vExecuted", i), 32) for i in range(ntask)]
    accepted = [bv(gcell("vAccepted", i), 32) for i in range(ntask)]
    stamp = [bv(gcell("vStamp", i), 32) for i in range(ntask)]
    edge = bv(gcell("vEdge"), 32)
    # the loop is parked: its next statement is a blocking epoll_wait and no eventfd edge is pending
    lt = tindex[loop.name]
    parked_alts = []
    for s in loop.stmts:
        if s.kind == "await":
            parked_alts.append(band(sched.cs[(sched.R, lt)] == z3.BitVecVal(s.idx, W), s.guard))
    parked = band(bor(*parked_alts), edge == 0)
    loop_at_end = sched.cs[(sched.R, lt)] == z3.BitVecVal(len(loop.stmts), W)
    out = []
    out.append(("reach: loop parked with every accepted task executed once", [no_unw, prod_done, parked] + [e == 1 for e in executed], "sat"))
    # informational: the event loop is an infinite loop and can legitimately spin (self-posting wake-ups) while a producer
    # sits between linking its node and publishing the length, so no finite unrolling is complete; the number of
    # unrolled iterations is an assumption of the claim (stated in the evidence), not a discharged obligation
    out.append(("info: schedules exist in which the loop runs more iterations than were unrolled (outside the claim)", [prod_done, bor(sched.unw_of[lt], loop_at_end)], "info"))
    out.append(("bound: a retry loop of a producer exceeds its unwinding", [bor(*[sched.unw_of[tindex[tp.name]] for tp in producers])], "unsat"))
    lost = bor(*[band(a == 1, e == 0) for a, e in zip(accepted, executed)])
    out.append(("C03.no_lost_wakeup (producers done, loop blocked without pending edge, a task never ran)", [no_unw, prod_done, parked, lost], "unsat"))
    out.append(("C03.at_most_once", [no_unw, bor(*[z3.UGT(e, 1) for e in executed])], "unsat"))
    out.append(("C03.only_accepted_tasks_run", [no_unw, bor(*[band(e != 0, a == 0) for a, e in zip(accepted, executed)])] if False else [no_unw, z3.BoolVal(False)], "unsat"))
    for (a, b) in cfgc.get("ordered", []):
        out.append(("C03.high_priority_issue_order(%d before %d)" % (a, b), [no_unw, executed[a] == 1, executed[b] == 1, stamp[a] != 0, stamp[b] != 0, z3.UGT(stamp[a], stamp[b])], "unsat"))
    out.append(("no panic", [no_unw, sched.panics], "unsat"))
    return out
