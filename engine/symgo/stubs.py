"""Intrinsics (harness runtime) and environment stubs. Each stub is part of the claim; the
evidence lists the stubs a run actually hit."""
import z3
from .vals import *
from .arith import simp, bnot, band, bor, ite, norm


def _strarg(ex, st, s):
    b = ex.str_bytes(st, s)
    if b is None:
        raise Unsupported("intrinsic label must be a constant string")
    return b.decode()


def install(ex):
    from .engine import ForkResult, GoPanic, PathEnd, Violation, CallInstead
    I = ex.intrinsics
    S = ex.stubs

    # ---------------------------------------------------------------- intrinsics
    def vNondetInt(ex, st, args, ins):
        name = _strarg(ex, st, args[0])
        v = ex.A.fresh(ex.fresh_name(name), 64, True)
        c = ex.A.range_constraint(v, 64, True)
        if c is not True:
            st.pc.append(c)
        st.tape.append({"name": name, "kind": "int", "sym": v, "bits": 64, "signed": True})
        return v

    def mk_nondet_sized(bits, signed):
        def f(ex, st, args, ins):
            name = _strarg(ex, st, args[0])
            v = ex.A.fresh(ex.fresh_name(name), bits, signed)
            c = ex.A.range_constraint(v, bits, signed)
            if c is not True:
                st.pc.append(c)
            st.tape.append({"name": name, "kind": "int", "sym": v, "bits": bits, "signed": signed})
            return v
        return f

    def vNondetBool(ex, st, args, ins):
        name = _strarg(ex, st, args[0])
        v = z3.Bool(ex.fresh_name(name))
        st.tape.append({"name": name, "kind": "bool", "sym": v})
        return v

    def vNondetBytes(ex, st, args, ins):
        name = _strarg(ex, st, args[0])
        n = args[1]
        base = ex.new_base(name)
        p = ex.alloc(st, Bytes(base, n), "nb")
        st.tape.append({"name": name, "kind": "bytes", "n": n, "base": base})
        return SliceV(p, 0, n, n)

    def vAssume(ex, st, args, ins):
        c = args[0]
        c = simp(c) if is_sym(c) else c
        if c is True:
            return None
        if c is False:
            raise PathEnd()
        if ex.check(st, c) == "unsat":
            raise PathEnd()
        st.pc.append(c)
        return None

    def vAssert(ex, st, args, ins):
        label = _strarg(ex, st, args[0])
        c = args[1]
        c = simp(c) if is_sym(c) else c
        rec = ex.stats.asserts.setdefault(label, [0, 0, 0])
        rec[0] += 1
        if c is True:
            rec[1] += 1     # the asserted term simplified to true syntactically: discharged, but trivial
            return None
        rec[2] += 1         # non-trivial: needs the solver (or is refuted outright)
        bad = True if c is False else z3.Not(c)
        r = ex.check(st, bad) if bad is not True else "sat"
        if r == "unsat":
            rec[1] += 1
            ex.cross_check(st, bad, label)
            st.pc.append(c)
            return None
        if r == "unknown":
            ex.inconclusive.append("solver unknown on assert " + label)
            st.pc.append(c)
            return None
        m = ex.model_for(st, bad)
        tape = ex.tape_from_model(st, m) if m is not None else None
        where = ins.get("pos", "") if ins else ""
        st.events.append("assert-fail " + label)
        ex.violations.append(Violation("assert", label, where, tape, detail="; ".join(st.events[-6:])))
        if c is False:
            raise PathEnd()
        if ex.check(st, c) == "unsat":
            raise PathEnd()
        st.pc.append(c)
        return None

    def vReach(ex, st, args, ins):
        label = _strarg(ex, st, args[0])
        ex.stats.reached[label] = ex.stats.reached.get(label, 0) + 1
        return None

    def vMaxLen(ex, st, args, ins):
        return ex.maxlen

    def vCfg(ex, st, args, ins):
        name = _strarg(ex, st, args[0])
        return int(ex.cfg.get("vcfg", {}).get(name, args[1]))

    def vNote(ex, st, args, ins):
        st.events.append(_strarg(ex, st, args[0]))
        return None

    def vObserveInt(ex, st, args, ins):
        name = _strarg(ex, st, args[0])
        st.events.append("%s=%s" % (name, args[1]))
        return None

    def vPanics(ex, st, args, ins):
        f = args[0]
        return CallInstead(f.fn, [], f.binds, catch=True)

    def vUnwindAssume(ex, st, args, ins):
        st.ghost["unwind_assume"] = bool(args[0])
        return None

    def vSameMem(ex, st, args, ins):
        """do two byte slices share their backing array? (identity of the allocation)"""
        a, b = args
        if a.ptr is None or b.ptr is None:
            return False
        return a.ptr.key() == b.ptr.key()

    def vBaseCap(ex, st, args, ins):
        """total size of the allocation backing a byte slice minus the slice offset (bytes reachable without leaving the object)"""
        a = args[0]
        if a.ptr is None:
            return 0
        b = ex.load(st, a.ptr)
        return ex.sub(b.n, a.off)

    def vSubslice(ex, st, args, ins):
        """vSubslice(b, off, len, cap): b[off:off+len:off+cap] (three-index slice with symbolic bounds)"""
        b, off, ln, cp = args
        return SliceV(b.ptr, ex.add(b.off, off), ln, cp)

    def vPoolCount(ex, st, args, ins):
        return len(st.ghost.get("pools", ()))

    def vReleased(ex, st, args, ins):
        a = args[0]
        return a.ptr is not None and a.ptr.obj in st.ghost.get("bs_released", ())

    vReleasedStr = vReleased

    for k, v in list(locals().items()):
        if k.startswith("v") and callable(v):
            I[k] = v
    I["vNondetUint32"] = mk_nondet_sized(32, False)
    I["vNondetInt32"] = mk_nondet_sized(32, True)
    I["vNondetUint64"] = mk_nondet_sized(64, False)
    I["vNondetUint16"] = mk_nondet_sized(16, False)
    I["vNondetByte"] = mk_nondet_sized(8, False)
    I["vNondetInt64"] = mk_nondet_sized(64, True)

    # ---------------------------------------------------------------- math/bits
    def bits_len(bits):
        def f(ex, st, args, ins):
            return ex.A.bits_len(args[0], bits)
        return f
    S["math/bits.Len"] = bits_len(64)
    S["math/bits.Len64"] = bits_len(64)
    S["math/bits.Len32"] = bits_len(32)
    S["math/bits.Len16"] = bits_len(16)
    S["math/bits.Len8"] = bits_len(8)

    def bits_tz(bits):
        return lambda ex, st, args, ins: ex.A.trailing_zeros(args[0], bits)

    def bits_lz(bits):
        def f(ex, st, args, ins):
            ln = ex.A.bits_len(args[0], bits)
            return ex.A.binop("-", bits, ln, 64, True)
        return f

    def bits_oc(bits):
        return lambda ex, st, args, ins: ex.A.ones_count(args[0], bits)
    for suf, b in (("", 64), ("64", 64), ("32", 32), ("16", 16), ("8", 8)):
        S["math/bits.TrailingZeros" + suf] = bits_tz(b)
        S["math/bits.LeadingZeros" + suf] = bits_lz(b)
        S["math/bits.OnesCount" + suf] = bits_oc(b)

    # ---------------------------------------------------------------- hash/crc32: pure uninterpreted function of its argument
    def crc32_ieee(ex, st, args, ins):
        b = args[0]
        arr = ex.load(st, b.ptr).arr if b.ptr is not None else None
        key = ("crc", id(arr), str(b.off), str(b.len))
        memo = st.ghost.get("crc_memo", {})
        if key not in memo:
            v = ex.A.fresh(ex.fresh_name("crc32"), 32, False)
            c = ex.A.range_constraint(v, 32, False)
            if c is not True:
                st.pc.append(c)
            memo = dict(memo)
            memo[key] = (v, arr)   # keep arr alive so id() stays unique
            st.ghost["crc_memo"] = memo
            # for replay: which nondeterministic byte string is hashed (whole string only)
            base = None
            a = arr
            if isinstance(a, ACopy) and isinstance(a.dst, AZero) and isinstance(a.src, ABase) and str(a.doff) == "0" and str(a.soff) == "0":
                a = a.src
            if isinstance(a, ABase):
                base = a.name
            st.ghost["crc_fix"] = st.ghost.get("crc_fix", ()) + ((v, base),)
        return memo[key][0]
    S["hash/crc32.ChecksumIEEE"] = crc32_ieee

    # crc32.Update (not used by the unchanged tree): an arbitrary 32-bit value per call - an over-approximation, so a
    # counterexample that depends on it counts only if it reproduces natively with the real CRC
    def crc32_update(ex, st, args, ins):
        v = ex.A.fresh(ex.fresh_name("crc32u"), 32, False)
        c = ex.A.range_constraint(v, 32, False)
        if c is not True:
            st.pc.append(c)
        return v
    S["hash/crc32.Update"] = crc32_update

    # ---------------------------------------------------------------- a few package strings/bytes predicates (first argument may
    # have symbolic content but needs a concrete length; the pattern must be concrete)
    def _sym_chars(ex, st, s):
        if not isinstance(s.len, int):
            raise Unsupported("strings.* stub on a string of symbolic length")
        if s.ptr is None:
            return []
        arr = ex.load(st, s.ptr).arr
        return [ex.select(st, arr, ex.add(s.off, i)) for i in range(s.len)]

    def _match_at(ex, chars, i, pat):
        return band(*[ex.A.cmp("==", chars[i + j], pat[j]) for j in range(len(pat))])

    def s_index_byte(ex, st, args, ins):
        chars = _sym_chars(ex, st, args[0])
        c = args[1]
        e = -1
        for i in range(len(chars) - 1, -1, -1):
            e = ite(ex.A.cmp("==", chars[i], c), i, e, ex.A.mk)
        return e

    def s_contains(ex, st, args, ins):
        chars = _sym_chars(ex, st, args[0])
        pat = ex.str_bytes(st, args[1])
        if pat is None:
            raise Unsupported("strings.Contains with symbolic pattern")
        return bor(*[_match_at(ex, chars, i, pat) for i in range(0, len(chars) - len(pat) + 1)]) if len(pat) <= len(chars) else False

    def s_has_prefix(ex, st, args, ins):
        chars = _sym_chars(ex, st, args[0])
        pat = ex.str_bytes(st, args[1])
        if pat is None:
            raise Unsupported("strings.HasPrefix with symbolic prefix")
        return _match_at(ex, chars, 0, pat) if len(pat) <= len(chars) else False

    def s_has_suffix(ex, st, args, ins):
        chars = _sym_chars(ex, st, args[0])
        pat = ex.str_bytes(st, args[1])
        if pat is None:
            raise Unsupported("strings.HasSuffix with symbolic suffix")
        return _match_at(ex, chars, len(chars) - len(pat), pat) if len(pat) <= len(chars) else False
    S["strings.IndexByte"] = s_index_byte
    S["strings.Contains"] = s_contains
    S["strings.HasPrefix"] = s_has_prefix
    S["strings.HasSuffix"] = s_has_suffix
    S["strings.ContainsRune"] = lambda ex, st, args, ins: ex.A.cmp(">=", s_index_byte(ex, st, args, ins), 0)
    S["strings.ContainsAny"] = lambda ex, st, args, ins: bor(*[ex.A.cmp(">=", s_index_byte(ex, st, [args[0], ch], ins), 0) for ch in (ex.str_bytes(st, args[1]) or b"")])
    S["bytes.IndexByte"] = s_index_byte

    # ---------------------------------------------------------------- sync.Pool
    # ghost "pools": tuple of (pool Ptr, value). Get may return nil or any stored element of that pool.
    def pool_put(ex, st, args, ins):
        p, v = args
        st.ghost["pools"] = st.ghost.get("pools", ()) + ((p, v),)
        st.events.append("pool.Put")
        return None

    def pool_get(ex, st, args, ins):
        p = args[0]
        ents = st.ghost.get("pools", ())
        alts = []
        for i, (q, v) in enumerate(ents):
            c = ex.ptr_eq(p, q)
            if c is False:
                continue

            def take(s2, i=i, v=v):
                es = list(s2.ghost["pools"])
                del es[i]
                s2.ghost["pools"] = tuple(es)
                s2.events.append("pool.Get->stored")
                return v
            alts.append((c, take))

        # nothing stored (or the GC emptied the pool): sync.Pool falls back to New when it is set
        newfn = None
        try:
            tree = ex.load(st, p)
            if isinstance(tree, tuple) and len(tree) >= 1 and isinstance(tree[-1], Closure):
                newfn = tree[-1]
        except Exception:
            newfn = None
        if newfn is not None:
            if not alts:
                return CallInstead(newfn.fn, [], newfn.binds)
            # both alternatives: a stored element, or a fresh one from New -- explored as a nondeterministic choice
            alts.append((True, ("call", newfn)))
            return ForkResult(alts, lazy=True)

        def none(s2):
            s2.events.append("pool.Get->nil")
            return None
        alts.append((True, none))
        return ForkResult(alts, lazy=True)
    S["(*sync.Pool).Put"] = pool_put
    S["(*sync.Pool).Get"] = pool_get

    # ---------------------------------------------------------------- sync / atomic (sequential engine: plain memory)
    def noop(ex, st, args, ins):
        return None
    for n in ("(*sync.Mutex).Lock", "(*sync.Mutex).Unlock", "(*sync.RWMutex).Lock", "(*sync.RWMutex).Unlock",
              "(*sync.RWMutex).RLock", "(*sync.RWMutex).RUnlock", "runtime.Gosched", "runtime.LockOSThread",
              "runtime.UnlockOSThread", "runtime.KeepAlive", "(*sync.WaitGroup).Add", "(*sync.WaitGroup).Done",
              "(*sync.WaitGroup).Wait", "runtime.SetFinalizer", "runtime.GC"):
        S[n] = noop

    # sync.Once: Do runs f at most once per Once object
    def once_do(ex, st, args, ins):
        key = ("once", args[0].key())
        if st.ghost.get(key):
            return None
        st.ghost[key] = True
        f = args[1]
        return CallInstead(f.fn, [], f.binds)
    S["(*sync.Once).Do"] = once_do

    def at_load(ex, st, args, ins):
        return ex.load(st, args[0])

    def at_store(ex, st, args, ins):
        ex.store(st, args[0], args[1])
        return None

    def mk_add(bits, signed):
        def f(ex, st, args, ins):
            p = args[0]
            sp = ex.sym_positions(st, p)
            if sp:
                pos, n = sp[0]

                def mk(i):
                    def g(s2):
                        q = Ptr(p.obj, p.path[:pos] + (i,) + p.path[pos + 1:])
                        v = ex.A.binop("+", ex.load(s2, q), args[1], bits, signed)
                        ex.store(s2, q, v)
                        return v
                    return g
                return ForkResult([(ex.A.cmp("==", p.path[pos], i), mk(i)) for i in range(n)], lazy=True)
            v = ex.A.binop("+", ex.load(st, args[0]), args[1], bits, signed)
            ex.store(st, args[0], v)
            return v
        return f

    def at_swap(ex, st, args, ins):
        old = ex.load(st, args[0])
        ex.store(st, args[0], args[1])
        return old

    def mk_cas(bits, signed):
        def f(ex, st, args, ins):
            cur = ex.load(st, args[0])
            c = ex.A.cmp("==", cur, args[1], signed)

            def yes(s2):
                ex.store(s2, args[0], args[2])
                return True

            def no(s2):
                return False
            return ForkResult([(c, yes), (bnot(c), no)], lazy=True)
        return f
    for suf, bits, signed in (("Int32", 32, True), ("Int64", 64, True), ("Uint32", 32, False), ("Uint64", 64, False), ("Uintptr", 64, False)):
        S["sync/atomic.Load" + suf] = at_load
        S["sync/atomic.Store" + suf] = at_store
        S["sync/atomic.Add" + suf] = mk_add(bits, signed)
        S["sync/atomic.Swap" + suf] = at_swap
        S["sync/atomic.CompareAndSwap" + suf] = mk_cas(bits, signed)
    S["sync/atomic.LoadPointer"] = at_load
    S["sync/atomic.StorePointer"] = at_store

    def cas_ptr(ex, st, args, ins):
        cur = ex.load(st, args[0])
        c = ex.ptr_eq(cur, args[1])

        def yes(s2):
            ex.store(s2, args[0], args[2])
            return True
        return ForkResult([(c, yes), (bnot(c), lambda s2: False)], lazy=True)
    S["sync/atomic.CompareAndSwapPointer"] = cas_ptr

    # atomic.Int32 / atomic.Bool / atomic.Pointer[T] typed wrappers: struct{_ noCopy; v T} ; field index of v is last
    def typed_field(ex, st, p):
        tree = ex.load(st, p)
        return Ptr(p.obj, p.path + (len(tree) - 1,))

    def ta_load(ex, st, args, ins):
        return ex.load(st, typed_field(ex, st, args[0]))

    def ta_store(ex, st, args, ins):
        ex.store(st, typed_field(ex, st, args[0]), args[1])
        return None

    def ta_add(bits, signed):
        def f(ex, st, args, ins):
            fp = typed_field(ex, st, args[0])
            v = ex.A.binop("+", ex.load(st, fp), args[1], bits, signed)
            ex.store(st, fp, v)
            return v
        return f

    def ta_cas(ex, st, args, ins):
        fp = typed_field(ex, st, args[0])
        cur = ex.load(st, fp)
        if isinstance(cur, (Ptr, type(None))) and not isinstance(args[1], int):
            c = ex.ptr_eq(cur, args[1])
        else:
            c = ex.A.cmp("==", cur, args[1])

        def yes(s2):
            ex.store(s2, fp, args[2])
            return True
        return ForkResult([(c, yes), (bnot(c), lambda s2: False)], lazy=True)

    def ab_load(ex, st, args, ins):
        v = ex.load(st, typed_field(ex, st, args[0]))
        return ex.A.cmp("!=", v, 0)

    def ab_store(ex, st, args, ins):
        b = args[1]
        v = ite(b, 1, 0, lambda x: ex.A.mk(x, 32))
        ex.store(st, typed_field(ex, st, args[0]), v)
        return None
    for tn, bits, signed in (("Int32", 32, True), ("Int64", 64, True), ("Uint32", 32, False), ("Uint64", 64, False)):
        S["(*sync/atomic.%s).Load" % tn] = ta_load
        S["(*sync/atomic.%s).Store" % tn] = ta_store
        S["(*sync/atomic.%s).Add" % tn] = ta_add(bits, signed)
        S["(*sync/atomic.%s).CompareAndSwap" % tn] = ta_cas
    S["(*sync/atomic.Bool).Load"] = ab_load
    S["(*sync/atomic.Bool).Store"] = ab_store
    ex.stub_prefixes = {
        "(*sync/atomic.Pointer[": {"Load": ta_load, "Store": ta_store, "CompareAndSwap": ta_cas},
    }


def install_contracts(ex, names):
    """Contract stubs: callee replaced by the contract that ANOTHER property's check establishes on the real code.
    byteslice: Get(n) -> slice of length n, capacity >= n, exclusively owned memory with arbitrary content
    (established by C12 on the real Pool.Get/Put/index); Put(buf) -> memory handed back (ghost 'released')."""
    from .engine import ForkResult, GoPanic
    S = ex.stubs
    BS = "github.com/panjf2000/gnet/v2/pkg/pool/byteslice."

    def bs_get_impl(ex, st, size):
        def nil(s2):
            return NIL_SLICE

        def fresh(s2):
            cap = ex.A.fresh(ex.fresh_name("bscap"), 64, True)
            s2.pc.append(ex.A.cmp(">=", cap, size))
            if not ex.bv:
                s2.pc.append(cap <= (1 << 62))
            base = ex.new_base("bsmem")
            p = ex.alloc(s2, Bytes(base, cap), "bs")
            return SliceV(p, 0, size, cap)
        c = ex.A.cmp("<=", size, 0)
        if c is True:
            return NIL_SLICE
        if c is False:
            return fresh(st)
        return ForkResult([(c, nil), (bnot(c), fresh)], lazy=True)

    def bs_put_impl(ex, st, buf):
        if buf.ptr is not None:
            if buf.ptr.obj in st.ghost.get("bs_released", ()):
                raise GoPanic("byteslice.Put called twice on the same memory (double hand-back)")
            st.ghost["bs_released"] = st.ghost.get("bs_released", ()) + (buf.ptr.obj,)
        return None

    RB = "github.com/panjf2000/gnet/v2/pkg/pool/ringbuffer."
    RING = "github.com/panjf2000/gnet/v2/pkg/buffer/ring.Buffer"

    def ring_layout():
        # find the struct type ring.Buffer to build a value in field order (buf,size,r,w,isEmpty)
        for tid, t in enumerate(ex.p.types):
            if t["k"] == "named" and t["name"] == RING:
                return tid
        raise Unsupported("ring.Buffer type not in dump")

    def rb_get(ex, st, args, ins):
        """contract (established under C12): an EMPTY ring of arbitrary capacity, not shared with any other holder"""
        tid = ring_layout()
        fields = [f["n"] for f in ex.p.U(tid)["fields"]]

        def mk(s2, zero):
            if zero:
                vals = {"buf": NIL_SLICE, "size": 0, "r": 0, "w": 0, "isEmpty": True}
            else:
                size = ex.A.fresh(ex.fresh_name("rbsize"), 64, True)
                s2.pc.append(ex.A.cmp(">=", size, 1))
                s2.pc.append(ex.A.cmp("<=", size, ex.maxlen))
                base = ex.new_base("rbmem")
                bp = ex.alloc(s2, Bytes(base, size), "rbm")
                vals = {"buf": SliceV(bp, 0, size, size), "size": size, "r": 0, "w": 0, "isEmpty": True}
            s2.events.append("rbPool.Get")
            return ex.alloc(s2, StructV(vals[f] for f in fields), "ring")
        return ForkResult([(True, lambda s2: mk(s2, True)), (True, lambda s2: mk(s2, False))], lazy=True)

    def rb_put(ex, st, args, ins):
        b = args[-1]
        if b is None:
            raise GoPanic("ringbuffer.Put(nil)")
        n = st.ghost.get("rb_put_count", 0)
        st.ghost["rb_put_count"] = n + 1
        st.ghost["rb_released"] = st.ghost.get("rb_released", ()) + (b.obj,)
        st.events.append("rbPool.Put")
        return None

    if "gnet_env" in names:
        # error plumbing used by the I/O path
        def new_syscall_error(ex, st, args, ins):
            name, err = args
            if err is None:
                return None
            return Iface("opaque", ("syscallerr", id(err), err))

        def errors_is(ex, st, args, ins):
            err, target = args
            for _ in range(8):
                if err is None:
                    return target is None
                if isinstance(err, Iface) and isinstance(target, Iface) and err.tid == target.tid:
                    e = ex.val_eq(st, err, target, None) if False else None
                if err is target:
                    return True
                try:
                    tid_iface = None
                    same = (err.tid == target.tid) and (ex.val_eq_iface(st, err, target))
                except Exception:
                    same = False
                if same is True:
                    return True
                if isinstance(err, Iface) and err.tid == "opaque" and isinstance(err.val, tuple) and err.val[0] == "syscallerr":
                    err = err.val[2]
                    continue
                return same
            return False

        def fmt_errorf(ex, st, args, ins):
            ex.symctr += 1
            return Iface("opaque", ("errorf", ex.symctr))
        def addr_string(ex, st, args, ins):
            # net.Addr.String(): formatting of an address (package net internals): an arbitrary string, equal for the same receiver
            key = ("addrstr", args[0].key() if args[0] is not None else None)
            if key not in st.ghost:
                n = ex.A.fresh(ex.fresh_name("addrstrlen"), 64, True)
                st.pc.append(ex.A.cmp(">=", n, 0))
                st.pc.append(ex.A.cmp("<=", n, 64))
                base = ex.new_base("addrstr")
                p = ex.alloc(st, Bytes(base, n), "as")
                st.ghost[key] = SliceV(p, 0, n, n, True)
            return st.ghost[key]
        for tn in ("TCPAddr", "UDPAddr", "UnixAddr", "IPAddr"):
            S["(*net.%s).String" % tn] = addr_string
        S["os.NewSyscallError"] = new_syscall_error
        S["errors.Is"] = errors_is
        S["fmt.Errorf"] = fmt_errorf
        # strings.Builder: only Len() > 0 matters to the code under test
        def sb_write(ex, st, args, ins):
            key = ("sb", args[0].key())
            st.ghost[key] = st.ghost.get(key, 0) + 1
            return (0, None)

        def sb_len(ex, st, args, ins):
            return st.ghost.get(("sb", args[0].key()), 0)
        S["(*strings.Builder).WriteString"] = sb_write
        S["(*strings.Builder).Len"] = sb_len
        S["(*strings.Builder).String"] = lambda ex, st, args, ins: ex.str_const(st, b"<builder>")
        S["strings.TrimSuffix"] = lambda ex, st, args, ins: args[0]
        S["(opaque).Error"] = lambda ex, st, args, ins: ex.str_const(st, b"<error>")
        S["opaque.Error"] = lambda ex, st, args, ins: ex.str_const(st, b"<error>")

    if "net_ipv4" in names:
        def net_ipv4(ex, st, args, ins):
            # net.IPv4(a,b,c,d): 16-byte form ::ffff:a.b.c.d (package net's v4InV6Prefix table lives in an initialiser we do not run)
            arr = AConst(bytes([0] * 10 + [0xff, 0xff, 0, 0, 0, 0]))
            for i, v in enumerate(args[:4]):
                arr = AStore(arr, 12 + i, v)
            p = ex.alloc(st, Bytes(arr, 16), "ip")
            return SliceV(p, 0, 16, 16)
        S["net.IPv4"] = net_ipv4

    if "rb_calibrate_havoc" in names:
        def calib(ex, st, args, ins):
            # calibrate(): float percentile + sort are not encoded; its only effect on the property is to set
            # defaultSize/maxSize to some size class
            return None
        S["(*" + RB + "Pool).calibrate"] = calib

    if "ringbuffer" in names:
        S[RB + "Get"] = rb_get
        S[RB + "Put"] = rb_put
        S["(*" + RB + "Pool).Get"] = rb_get
        S["(*" + RB + "Pool).Put"] = rb_put

        def vRbPutCount(ex, st, args, ins):
            return st.ghost.get("rb_put_count", 0)
        ex.intrinsics["vRbPutCount"] = vRbPutCount

    if "byteslice" in names:
        S[BS + "Get"] = lambda ex, st, args, ins: bs_get_impl(ex, st, args[0])
        S[BS + "Put"] = lambda ex, st, args, ins: bs_put_impl(ex, st, args[0])
        S["(*" + BS + "Pool).Get"] = lambda ex, st, args, ins: bs_get_impl(ex, st, args[1])
        S["(*" + BS + "Pool).Put"] = lambda ex, st, args, ins: bs_put_impl(ex, st, args[1])
