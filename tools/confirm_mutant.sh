#!/bin/bash
# usage: tools/confirm_mutant.sh <PROP> <N> [tags]  : confirm a sub-agent mutant in its scratch worktree /tmp/wt_<PROP>
#   - patch applies, tree builds, existing tests of touched packages pass (root package: full suite unless SKIP_ROOT=1)
#   - demo fails with the patch and passes without it
P="$1"; N="$2"; TAGS="$3"
WT=${WT_DIR:-/tmp/wt_$P}; M=${MUT_DIR:-/tmp/mut_$P}
export GOFLAGS=-mod=mod GOPROXY=off GOSUMDB=off
cd $WT || exit 2
git checkout -q -- . && git clean -fdq
git apply --check $M/m$N.diff || { echo "CONFIRM $P m$N: patch does not apply"; exit 1; }
git apply $M/m$N.diff
TOUCH=$(git diff --name-only | xargs -n1 dirname | sort -u)
go build ./... || { echo "CONFIRM $P m$N: build fails"; git checkout -q -- .; exit 1; }
[ -n "$TAGS" ] && { go build -tags "$TAGS" ./... || { echo "CONFIRM $P m$N: build with tags fails"; git checkout -q -- .; exit 1; }; }
SUITE=ok
for d in $TOUCH; do
  if [ "$d" = "." ]; then
    if [ -z "$SKIP_ROOT" ]; then
      # root suite in a private network namespace (fixed ports collide with other jobs); NIC-dependent tests skipped
      go test -c -vet=off ${TAGS:+-tags $TAGS} -o /tmp/gnet_confirm_$P.test . && \
      unshare -n sh -c "ip link set lo up; cd $WT && /tmp/gnet_confirm_$P.test -test.count=1 -test.timeout 25m -test.skip 'TestServeMulticast|TestMulticastBind|TestBindToDevice'" > $M/m$N.root.log 2>&1 || SUITE="root-suite-FAILED"
      rm -f /tmp/gnet_confirm_$P.test
    else SUITE="$SUITE(root suite skipped)"; fi
  else
    go test -count=1 -vet=off ./$d/... > $M/m$N.pkg.log 2>&1 || SUITE="pkg-suite-FAILED($d)"
  fi
done
go test -count=1 -vet=off ./pkg/... > /dev/null 2>&1 || SUITE="$SUITE pkg-all-FAILED"
LOC=$(head -1 $M/m${N}_demo_test.go | sed -n 's/.*place in: *\([^ ]*\).*/\1/p'); LOC=${LOC%/}; [ -z "$LOC" ] && LOC=.
cp $M/m${N}_demo_test.go $WT/$LOC/zz_m${N}_demo_test.go
WITH=$(cd $WT/$LOC && go test -count=1 -vet=off ${TAGS:+-tags $TAGS} -run 'M'$N'|Demo|Mut|C[0-9][0-9]' -timeout 10m . 2>&1 | tail -1)
git apply -R $M/m$N.diff
WITHOUT=$(cd $WT/$LOC && go test -count=1 -vet=off ${TAGS:+-tags $TAGS} -run 'M'$N'|Demo|Mut|C[0-9][0-9]' -timeout 10m . 2>&1 | tail -1)
rm -f $WT/$LOC/zz_m${N}_demo_test.go
git checkout -q -- . && git clean -fdq
echo "CONFIRM $P m$N: suite=$SUITE | demo-with: $WITH | demo-without: $WITHOUT"
