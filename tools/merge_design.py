#!/usr/bin/env python3
"""re-insert DESIGN_STATUS.md between the STATUS markers of DESIGN.md"""
import os
d = os.path.dirname(os.path.dirname(os.path.abspath(__file__)))
s = open(os.path.join(d, "DESIGN.md")).read()
st = open(os.path.join(d, "DESIGN_STATUS.md")).read()
a = s.index("<!-- STATUS-BEGIN -->") + len("<!-- STATUS-BEGIN -->")
b = s.index("<!-- STATUS-END -->")
open(os.path.join(d, "DESIGN.md"), "w").write(s[:a] + "\n" + st.rstrip("\n") + "\n" + s[b:])
