#!/bin/sh
# usage: tools/try_mutant.sh <diff> <PROP> [tier] [filter]   -> applies diff to /repo, runs the check, restores
D="$1"; P="$2"; T="${3:-quick}"; F="$4"
cd /verif
git -C /repo apply "$D" || { echo "APPLY-FAILED $D"; exit 3; }
timeout 1500 ./check "$P" "$T" $F 2>&1 | grep -E "^(VIOLATION|OK|INCONCLUSIVE|SPURIOUS|KNOWN)" | cut -c1-220 | head -8
git -C /repo checkout -- . 
