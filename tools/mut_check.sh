#!/bin/sh
# usage: tools/mut_check.sh <diff> <PROP> [tier] [filter]
# Applies <diff> to a private scratch copy of /repo (git worktree under /tmp, removed afterwards) and runs the
# check against that copy (VERIF_REPO), so /repo itself and its evidence are never touched.
D="$1"; P="$2"; T="${3:-quick}"; F="$4"
WT=$(mktemp -d /tmp/mutrepo_XXXXXX)
rmdir "$WT"
git -C /repo worktree add -q --detach "$WT" HEAD || exit 3
cleanup() { git -C /repo worktree remove --force "$WT" 2>/dev/null; rm -rf "/verif/.work/alt_$(echo "$WT" | sed 's/[^A-Za-z0-9_]/_/g')"; }
trap cleanup EXIT
git -C "$WT" apply "$D" || { echo "APPLY-FAILED $D"; exit 3; }
cd /verif
VERIF_REPO="$WT" timeout 3000 ./check "$P" "$T" $F 2>&1 | grep -E "^(VIOLATION|OK|INCONCLUSIVE|SPURIOUS|KNOWN)" | sed "s|$WT|<scratch>|g" | cut -c1-220 | head -8
