#!/bin/sh
# usage: tools/with_patch.sh [-R] <patchfile|commit> -- <command...>
# applies a patch (or, with a commit id, that commit's diff; -R = reversed) to /repo's working tree, runs the
# command, and restores the tree.
REV=""
if [ "$1" = "-R" ]; then REV="-R"; shift; fi
P="$1"; shift; [ "$1" = "--" ] && shift
TMP=$(mktemp /tmp/wp_XXXXXX.diff)
if [ -f "$P" ]; then cp "$P" "$TMP"; else git -C /repo diff "$P~1" "$P" > "$TMP"; fi
git -C /repo apply $REV "$TMP" || { echo "patch does not apply"; rm -f "$TMP"; exit 3; }
"$@"; RC=$?
git -C /repo apply $( [ -z "$REV" ] && echo -R ) "$TMP" || git -C /repo checkout -- .
rm -f "$TMP"
exit $RC
