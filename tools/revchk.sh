#!/bin/sh
# usage: revchk.sh <commit> <PROP> [filter]: revert one fix commit in a scratch copy and run the check
C=$1; P=$2; F=$3
WT=$(mktemp -d /tmp/mutrepo_XXXXXX); rmdir $WT
git -C /repo worktree add -q --detach $WT HEAD || exit 3
git -C /repo diff $C~1 $C > /tmp/rev_$C.diff
git -C $WT apply -R /tmp/rev_$C.diff || { echo "REVERT-FAILED $C"; git -C /repo worktree remove --force $WT; exit 3; }
cd /verif; VERIF_REPO=$WT timeout 3000 ./check $P quick $F 2>&1 | grep -E "^(VIOLATION|OK|INCONCLUSIVE|SPURIOUS|  harness)" | sed "s|$WT|<scratch>|g" | cut -c1-230 | head -6
git -C /repo worktree remove --force $WT; rm -rf /verif/.work/alt_$(echo $WT | sed 's/[^A-Za-z0-9_]/_/g'); rm -f /tmp/rev_$C.diff
