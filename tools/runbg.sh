#!/bin/sh
# usage: tools/runbg.sh <logfile> <cmd...>   run a command detached in the background, output to <logfile>
L="$1"; shift
( "$@" > "$L" 2>&1 & )
