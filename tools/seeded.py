#!/usr/bin/env python3
"""Manage the corpus of seeded (sub-agent written) property-breaking changes under /verif/seeded.

  seeded.py keep <PROP> <N> [--tags T] [--checks C09,C10]   copy /tmp/mut_<PROP>/m<N>.* into /verif/seeded/<PROP>-m<N>/
  seeded.py sweep [id ...] [--tier quick]                   apply each patch to /repo, run its checks, undo, record result
"""
import json
import os
import re
import subprocess
import sys
import time

SEEDED = "/verif/seeded"


def sh(cmd, **kw):
    return subprocess.run(cmd, shell=True, stdout=subprocess.PIPE, stderr=subprocess.STDOUT, text=True, **kw)


def keep(prop, n, tags="", checks=None, confirm=""):
    src = "/tmp/mut_%s" % prop
    d = os.path.join(SEEDED, "%s-m%s" % (prop, n))
    os.makedirs(d, exist_ok=True)
    sh("cp %s/m%s.diff %s/patch.diff" % (src, n, d))
    sh("cp %s/m%s_demo_test.go %s/demo_test.go.txt" % (src, n, d))
    md = open("%s/m%s.md" % (src, n)).read()
    meta = {
        "id": "%s-m%s" % (prop, n),
        "property": prop,
        "written_by": "independent sub-agent given only the property text and a scratch worktree",
        "tags": tags,
        "checks": checks or [prop],
        "description_by_author": md,
        "confirmed_by_me": confirm,
    }
    json.dump(meta, open(os.path.join(d, "meta.json"), "w"), indent=1)
    print("kept", d)


def sweep(ids, tier):
    rows = []
    for sid in sorted(os.listdir(SEEDED)):
        d = os.path.join(SEEDED, sid)
        if not os.path.isdir(d) or (ids and sid not in ids):
            continue
        meta = json.load(open(os.path.join(d, "meta.json")))
        r = sh("git -C /repo status --porcelain")
        if r.stdout.strip():
            print("refusing: /repo working tree is not clean")
            sys.exit(2)
        ap = sh("git -C /repo apply %s/patch.diff" % d)
        if ap.returncode != 0:
            rows.append((sid, "patch no longer applies", ""))
            continue
        res = {}
        try:
            for c in meta["checks"]:
                t0 = time.time()
                out = sh("cd /verif && timeout 3000 ./check %s %s" % (c, tier))
                lines = [l for l in out.stdout.splitlines() if re.match(r"^(VIOLATION|OK|INCONCLUSIVE|SPURIOUS|KNOWN)", l)]
                verdict = "caught" if any(l.startswith("VIOLATION") for l in lines) else ("inconclusive" if out.returncode == 2 else "missed")
                res[c] = {"verdict": verdict, "exit": out.returncode, "wall_s": round(time.time() - t0, 1), "lines": [l[:300] for l in lines[:6]]}
        finally:
            sh("git -C /repo checkout -- .")
        meta["sweep"] = {"tier": tier, "results": res, "at": time.strftime("%Y-%m-%d %H:%M")}
        json.dump(meta, open(os.path.join(d, "meta.json"), "w"), indent=1)
        summary = ", ".join("%s:%s" % (c, v["verdict"]) for c, v in res.items())
        print(sid, summary, flush=True)
        rows.append((sid, summary, ""))
    # restore evidence of the unchanged tree for every check that was run (evidence must describe /repo itself)
    return rows


def main():
    a = sys.argv[1:]
    if a and a[0] == "keep":
        tags = ""
        checks = None
        confirm = ""
        rest = a[1:]
        pos = []
        i = 0
        while i < len(rest):
            if rest[i] == "--tags":
                tags = rest[i + 1]; i += 2
            elif rest[i] == "--checks":
                checks = rest[i + 1].split(","); i += 2
            elif rest[i] == "--confirm":
                confirm = rest[i + 1]; i += 2
            else:
                pos.append(rest[i]); i += 1
        keep(pos[0], pos[1], tags, checks, confirm)
    elif a and a[0] == "sweep":
        tier = "quick"
        ids = []
        rest = a[1:]
        i = 0
        while i < len(rest):
            if rest[i] == "--tier":
                tier = rest[i + 1]; i += 2
            else:
                ids.append(rest[i]); i += 1
        sweep(ids, tier)
    else:
        print(__doc__)


if __name__ == "__main__":
    main()
