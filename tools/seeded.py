#!/usr/bin/env python3
"""Manage the corpus of seeded (sub-agent written) property-breaking changes under /verif/seeded.

  seeded.py keep <PROP> <N> [--tags T] [--checks C09,C10]   copy /tmp/mut_<PROP>/m<N>.* into /verif/seeded/<PROP>-m<N>/
  seeded.py sweep [id ...] [--tier quick]                   apply each patch to /repo, run its checks, undo, record result
"""
import json
import os
import re
import subprocess
import sys
import time

SEEDED = "/verif/seeded"


def sh(cmd, **kw):
    return subprocess.run(cmd, shell=True, stdout=subprocess.PIPE, stderr=subprocess.STDOUT, text=True, **kw)


def keep(prop, n, tags="", checks=None, confirm=""):
    src = "/tmp/mut_%s" % prop
    d = os.path.join(SEEDED, "%s-m%s" % (prop, n))
    os.makedirs(d, exist_ok=True)
    sh("cp %s/m%s.diff %s/patch.diff" % (src, n, d))
    sh("cp %s/m%s_demo_test.go %s/demo_test.go.txt" % (src, n, d))
    md = open("%s/m%s.md" % (src, n)).read()
    meta = {
        "id": "%s-m%s" % (prop, n),
        "property": prop,
        "written_by": "independent sub-agent given only the property text and a scratch worktree",
        "tags": tags,
        "checks": checks or [prop],
        "description_by_author": md,
        "confirmed_by_me": confirm,
    }
    json.dump(meta, open(os.path.join(d, "meta.json"), "w"), indent=1)
    print("kept", d)


def sweep(ids, tier):
    """apply each patch to a private scratch worktree of /repo and run its checks there (VERIF_REPO); /repo is untouched"""
    import tempfile
    rows = []
    for sid in sorted(os.listdir(SEEDED)):
        d = os.path.join(SEEDED, sid)
        if not os.path.isdir(d) or (ids and sid not in ids):
            continue
        meta = json.load(open(os.path.join(d, "meta.json")))
        wt = tempfile.mkdtemp(prefix="mutrepo_", dir="/tmp")
        os.rmdir(wt)
        if sh("git -C /repo worktree add -q --detach %s HEAD" % wt).returncode != 0:
            print(sid, "cannot create scratch worktree")
            continue
        res = {}
        try:
            ap = sh("git -C %s apply %s/patch.diff" % (wt, d))
            if ap.returncode != 0:
                res = {"_": {"verdict": "patch no longer applies", "lines": [ap.stdout[:200]]}}
            else:
                for c in meta["checks"]:
                    t0 = time.time()
                    out = sh("cd /verif && VERIF_REPO=%s timeout 2400 ./check %s %s" % (wt, c, tier))
                    lines = [l for l in out.stdout.splitlines() if re.match(r"^(VIOLATION|OK|INCONCLUSIVE|SPURIOUS|KNOWN)", l)]
                    if any(l.startswith("VIOLATION") for l in lines):
                        verdict = "caught"
                    elif out.returncode == 124:
                        verdict = "timeout"
                    elif out.returncode == 2:
                        verdict = "inconclusive"
                    else:
                        verdict = "missed"
                    res[c] = {"verdict": verdict, "exit": out.returncode, "wall_s": round(time.time() - t0, 1),
                              "lines": [l.replace(wt, "<scratch>")[:300] for l in lines[:6]]}
        finally:
            sh("git -C /repo worktree remove --force %s" % wt)
            sh("rm -rf /verif/.work/alt_%s" % re.sub(r"\W", "_", wt))
        meta["sweep"] = {"tier": tier, "results": res, "at": time.strftime("%Y-%m-%d %H:%M"), "repo_head": sh("git -C /repo log --format=%h -1").stdout.strip()}
        json.dump(meta, open(os.path.join(d, "meta.json"), "w"), indent=1)
        summary = ", ".join("%s:%s(%ss)" % (c, v["verdict"], v.get("wall_s", "")) for c, v in res.items())
        print(sid, summary, flush=True)
        rows.append((sid, summary))
    with open(os.path.join(SEEDED, "RESULTS.md"), "a") as f:
        f.write("\n## sweep %s tier=%s\n\n" % (time.strftime("%Y-%m-%d %H:%M"), tier))
        for sid, summary in rows:
            f.write("- %s: %s\n" % (sid, summary))
    return rows


def main():
    a = sys.argv[1:]
    if a and a[0] == "keep":
        tags = ""
        checks = None
        confirm = ""
        rest = a[1:]
        pos = []
        i = 0
        while i < len(rest):
            if rest[i] == "--tags":
                tags = rest[i + 1]; i += 2
            elif rest[i] == "--checks":
                checks = rest[i + 1].split(","); i += 2
            elif rest[i] == "--confirm":
                confirm = rest[i + 1]; i += 2
            else:
                pos.append(rest[i]); i += 1
        keep(pos[0], pos[1], tags, checks, confirm)
    elif a and a[0] == "sweep":
        tier = "quick"
        ids = []
        rest = a[1:]
        i = 0
        while i < len(rest):
            if rest[i] == "--tier":
                tier = rest[i + 1]; i += 2
            else:
                ids.append(rest[i]); i += 1
        sweep(ids, tier)
    elif a and a[0] == "table":
        pass
    else:
        print(__doc__)


if __name__ == "__main__":
    main()


def table():
    """markdown table of the corpus with the latest sweep verdicts"""
    rows = []
    for sid in sorted(os.listdir(SEEDED)):
        d = os.path.join(SEEDED, sid)
        if not os.path.isdir(d):
            continue
        m = json.load(open(os.path.join(d, "meta.json")))
        first = (m.get("description_by_author", "").strip().splitlines() or [""])[0][:110]
        res = m.get("sweep", {}).get("results", {})
        verdict = ", ".join("%s: %s" % (c, v["verdict"]) for c, v in res.items()) or "not swept yet"
        rows.append("| %s | %s | %s |" % (sid, first.replace("|", "/"), verdict))
    print("| id | author's first line | quick-tier verdict per check |\n|---|---|---|")
    print("\n".join(rows))


if __name__ == "__main__" and len(sys.argv) > 1 and sys.argv[1] == "table":
    table()
