#!/usr/bin/env python3
"""profile one harness single-process: tools/profile_harness.py <PROP> <unit-index> <harness> [seconds]"""
import json, sys, time, collections, signal
sys.path.insert(0, '/verif'); sys.path.insert(0, '/verif/engine')
from symgo import run
import props
prop, ui, hn = sys.argv[1], int(sys.argv[2]), sys.argv[3]
secs = int(sys.argv[4]) if len(sys.argv) > 4 else 60
unit = props.PROPS[prop]['units'][ui]
out, h, pk, dt = run.dump_unit(prop, unit)
unit['_harnesses'] = h; unit['_pkgpath'] = pk; unit['_tier'] = 'quick'
from symgo.engine import Prog, Executor
run._PROG = Prog(json.load(open(out))); run._UNIT = unit
cnt = collections.Counter(); tm = collections.Counter()
orig = Executor.check
EX = []
def chk(self, st, extra=None):
    if not EX: EX.append(self)
    t0 = time.time(); r = orig(self, st, extra); d = time.time() - t0
    fr = st.frames[-1]; blk = fr.fn['_blocks'][fr.block]; ins = blk['instrs'][max(fr.ip - 1, 0)]
    key = (fr.fn['name'].split('.')[-1], ins.get('pos', ''), ins['op'], 'R' if self._region else '')
    cnt[key] += 1; tm[key] += d
    return r
Executor.check = chk
def onalarm(*a):
    ex = EX[0]
    print('paths_done', ex.stats.paths_done, 'queries', ex.stats.queries, 'solver', round(ex.stats.solver_time, 1))
    print('TOP time'); [print('  ', round(v, 2), cnt[k], k) for k, v in tm.most_common(14)]
    print('TOP count'); [print('  ', v, k) for k, v in cnt.most_common(8)]
    sys.exit(0)
signal.signal(signal.SIGALRM, onalarm); signal.alarm(secs)
r = run._run_one(hn)
print('finished', r['paths'], r['queries'], r['wall'], r['inconclusive'][:3])
onalarm()
