#!/bin/sh
# run every claimed check (tier $1, default quick) on the current /repo tree; prints one line per property
cd /verif; T="${1:-quick}"
for p in $(python3 -c "import json;print(' '.join(c['property_id'] for c in json.load(open('/verif/MANIFEST.json'))['checks']))"); do
  s=$(date +%s); out=$(./check $p $T 2>&1); rc=$?; e=$(date +%s)
  echo "$p rc=$rc $((e-s))s $(echo "$out" | grep -E '^(OK|VIOLATION|INCONCLUSIVE|SPURIOUS|KNOWN)' | head -3 | cut -c1-160 | tr '\n' '|')"
done
