#!/usr/bin/env python3
"""Regenerate /verif/MANIFEST.json from props.py (claimed checks) and the not-applicable table."""
import json, sys
sys.path.insert(0, "/verif")
import props

NA = props.NOT_APPLICABLE
checks = []
for pid in sorted(props.PROPS):
    sp = props.PROPS[pid]
    if not sp.get("claimed", True):
        continue
    c = {
        "property_id": pid,
        "quick_cmd": "./check %s quick" % pid,
        "thorough_cmd": "./check %s thorough" % pid,
        "evidence_file": "/verif/evidence/%s.json" % pid,
        "replay_cmd_template": "./check replay {path}",
        "engine": sp.get("engine", "symgo-seq"),
        "level_claimed": {"category": sp.get("level", "other"), "text": sp["level_text"], "design_ref": sp.get("design_ref", "DESIGN.md section 5")},
        "level_note": sp["level_note"],
        "technique": sp.get("technique", "bounded symbolic execution of go/ssa + SMT (z3), counterexamples replayed natively"),
    }
    checks.append(c)
na = [{"property_id": k, "reason": v} for k, v in sorted(NA.items()) if not props.PROPS.get(k, {}).get("claimed", k in props.PROPS and False)]
na = [x for x in na if x["property_id"] not in {c["property_id"] for c in checks}]
m = {
    "version": 1,
    "setup_cmd": "cd /verif && ./setup.sh",
    "hooks": {"guard": "verif", "enable": "no source hooks: harnesses are injected with go/packages overlays and `go test -overlay` (nothing is compiled into /repo)",
              "baseline_off_cmd": "cd /repo && GOFLAGS=-mod=mod GOPROXY=off go test -json -vet=off -count=1 -timeout 25m ./...",
              "source_commits": [], "add_only": True},
    "engines": [
        {"name": "symgo-seq", "path": "/verif/engine/symgo", "serves_properties": [c["property_id"] for c in checks if c["engine"] == "symgo-seq"],
         "kind_free_text": "sequential symbolic executor over go/ssa (dumped by /verif/engine/ssajson) with Int+wrap and bit-vector back ends, z3"},
        {"name": "symgo-conc", "path": "/verif/engine/symgo", "serves_properties": [c["property_id"] for c in checks if c["engine"] == "symgo-conc"],
         "kind_free_text": "bounded round-robin concurrent encoder over go/ssa (symbolic context-switch points), z3"},
    ],
    "checks": checks,
    "not_applicable": na,
    "notes": "Exit codes: 0 all obligations discharged within the registered bounds; 1 reproduced violation; 2 inconclusive (unknown, unwinding exceeded, unsupported instruction, spurious model). See DESIGN.md.",
}
json.dump(m, open("/verif/MANIFEST.json", "w"), indent=1)
print("checks:", [c["property_id"] for c in checks], "n/a:", [x["property_id"] for x in na])
