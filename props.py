"""Property -> verification units. A unit = one gnet package (+build tags) with harness files injected by overlay."""

PROPS = {}


def _textual_rewrite(pairs, must=True):
    """build an overlay generator: copy a repo file replacing call targets (regenerated from the current tree on every run)"""
    def gen(src, out):
        s = open(src).read()
        for a, b in pairs:
            if must and a not in s:
                raise RuntimeError("rewrite anchor %r not found in %s" % (a, src))
            s = s.replace(a, b)
        open(out, "w").write(s)
    return gen


NOT_APPLICABLE = {
    "C05": "whole-framework data-race freedom over all goroutine interleavings (goroutine creation, channels, errgroup, ants pool, real epoll) has no finite SMT encoding within reach of a hand-written go/ssa encoder; see DESIGN.md section 6",
    "C06": "liveness/ordering of shutdown across the stop goroutine, every loop goroutine, ticker and errgroup.Wait needs the same whole-program concurrent model as C05; sequential lemmas are decided under C04/C03; see DESIGN.md section 6",
}

PROPS["C20"] = {
    "level": "other",
    "level_text": "SMT decision over the full machine-word input space of the real loop-free arithmetic functions (bit-vector semantics from go/ssa): unsat of the negated specification = holds for every int/uint32 argument; no sampling, no bound on the inputs.",
    "level_note": "Trusted: go/ssa lowering, the SSA->SMT translation (validated by native replay of every counterexample and by the self-test), z3; math/bits.Len* is modelled by its specification. linux/amd64 (64-bit int) only.",
    "design_ref": "DESIGN.md section 5 (C20)",
    "explanation": "Symbolic execution (bit-vector back end, full machine width) of the real go/ssa of pkg/math, byteslice.index, ringbuffer.index and internal/gfd against independently written specifications; the functions are loop-free so there is no unwinding bound.",
    "bounds": {"ints": "full 64-bit / 32-bit machine words (no restriction)", "loops": "none in code under test; spec loops are concrete (63 iterations)"},
    "outside": ["ClosestPowerOfTwo for n > 2^62 (no upper neighbour representable; function panics)", "32-bit platforms"],
    "assumptions": ["go/ssa lowering is faithful", "math/bits.Len* modelled as its specification (ite ladder)", "sync/atomic.AddUint32 is a plain add in a sequential harness"],
    "units": [
        {"name": "math", "pkgdir": "pkg/math", "files": ["harness/math/c20_math.go"], "mode": "bv"},
        {"name": "byteslice", "pkgdir": "pkg/pool/byteslice", "files": ["harness/byteslice/c20_index.go"], "mode": "bv"},
        {"name": "rbpool", "pkgdir": "pkg/pool/ringbuffer", "files": ["harness/rbpool/c20_index.go"], "mode": "bv"},
        {"name": "gfd", "pkgdir": "internal/gfd", "files": ["harness/gfd/c20_gfd.go"], "mode": "bv", "unskip_pkgs": ["internal"], "skip_pkgs": ["internal/abi", "internal/reflectlite", "internal/cpu", "internal/goarch", "internal/unsafeheader", "internal/byteorder"]},
    ],
}

PROPS["C09"] = {
    "level": "other",
    "level_text": "Bounded symbolic execution of the real ring.Buffer code: one inductive step per operation from an arbitrary valid state (symbolic size <= 2^31, cursors, content), every path obligation discharged by z3; covers all histories because the representation invariant is re-proved after every operation.",
    "level_note": "Trusted: go/ssa lowering, SSA->SMT translation (counterexamples replayed natively), z3. byteslice.Get/Put are replaced by the contract that C12 establishes on the real pool code. Reader/writer behaviour limited to the io.Reader/io.Writer contracts, <= 3 reader calls per ReadFrom.",
    "design_ref": "DESIGN.md section 5 (C09)",
    "explanation": "One inductive step of every ring.Buffer operation, symbolically executed from go/ssa, from an arbitrary state satisfying the representation invariant (symbolic size, cursors, content); the invariant is re-established, so a pass covers operation histories of any length. Byte content is compared pointwise at a free index (Skolemised forall). Readers/writers are nondeterministic within the io.Reader/io.Writer contracts.",
    "bounds": {"sizes": "buffer size and argument lengths in [0, 2^31]", "reader_calls": "<= 3 reader calls per ReadFrom (environment assumption)", "grow_loop": "<= 6 iterations, unwinding checked (exceeding it makes the run inconclusive)"},
    "outside": ["sizes > 2^31", "readers returning m > len(p) or m < 0 (the code panics on purpose)", "writers returning m > len(p)"],
    "assumptions": ["sync.Pool returns nil or a previously Put element (exclusive)", "append() capacity growth is unspecified (fresh symbol >= needed)", "go/ssa lowering is faithful"],
    "units": [
        {"name": "ring", "pkgdir": "pkg/buffer/ring", "files": ["harness/ring/ring_common.go", "harness/ring/c09_ring.go"], "mode": "int", "contracts": ["byteslice"],
         "cfg": {"vcfg": {"reader_calls": 2}}, "cfg_thorough": {"vcfg": {"reader_calls": 3}}},
    ],
}

PROPS["C11"] = {
    "level": "other",
    "level_text": "Bounded symbolic execution of the real linkedlist.Buffer code: one inductive step per operation from an arbitrary valid list (0..3 segments, symbolic lengths <= 2^31 and contents), every path obligation discharged by z3; the representation invariant (size/bytes/tail in step with the list, no empty segment) is re-proved after every operation.",
    "level_note": "Trusted: go/ssa lowering, SSA->SMT translation (counterexamples replayed natively), z3. byteslice.Get/Put replaced by the contract established under C12. Pre-state lists have <= 3 segments (quick: 2); <= 3 reader calls per ReadFrom.",
    "design_ref": "DESIGN.md section 5 (C11)",
    "explanation": "One inductive step of every linkedlist.Buffer operation, symbolically executed from go/ssa, from an arbitrary list with a bounded number of segments; content compared pointwise at a free index; copies checked by mutating the caller's slice after the call.",
    "bounds": {"segments_in_prestate": "<= 2 quick, <= 3 thorough", "segment_length": "[1, 2^31]", "reader_calls": "<= 2 quick / 3 thorough"},
    "outside": ["longer pre-state lists (the code only ever touches head/tail and the counters)", "readers/writers violating the io contracts"],
    "assumptions": ["byteslice contract (C12)", "append() capacity growth unspecified"],
    "units": [
        {"name": "linkedlist", "pkgdir": "pkg/buffer/linkedlist", "files": ["harness/linkedlist/list_common.go", "harness/linkedlist/c11_list.go"], "mode": "int", "contracts": ["byteslice"],
         "cfg": {"vcfg": {"nodes": 2, "reader_calls": 2}}, "cfg_thorough": {"vcfg": {"nodes": 3, "reader_calls": 3}}},
    ],
}

PROPS["C10"] = {
    "level": "other",
    "level_text": "Bounded symbolic execution of the real elastic.Buffer / elastic.RingBuffer code with the real ring.Buffer and linkedlist.Buffer code inlined: one inductive step per operation from an arbitrary valid state (static limit, ring present/absent with any valid cursors, list of 0..2 segments, symbolic lengths/contents); all path obligations discharged by z3.",
    "level_note": "Trusted: go/ssa lowering, SSA->SMT translation (counterexamples replayed natively), z3. byteslice and ring-buffer pools replaced by the contracts established under C12 (Get: exclusively owned memory / an empty unshared ring). Pre-state list <= 2 segments, Writev <= 3 segments (the >1024 segment case is a concrete-length run in the thorough tier), total content <= MaxInt32 (Peek's 'everything' sentinel).",
    "design_ref": "DESIGN.md section 5 (C10)",
    "explanation": "One inductive step of every elastic buffer operation, symbolically executed from go/ssa (ring and list code inlined, not summarised); abstract value ring++list compared pointwise at a free index.",
    "bounds": {"list_segments_in_prestate": "<= 1 quick, <= 2 thorough", "writev_segments": "1..2 quick, 1..3 thorough", "sizes": "[0, 2^31], total content <= 2^31-1", "reader_calls": "<= 2"},
    "outside": ["longer pre-state lists", "content > MaxInt32 bytes"],
    "assumptions": ["pool contracts (C12)", "append() capacity growth unspecified"],
    "units": [
        {"name": "elastic", "pkgdir": "pkg/buffer/elastic", "files": ["harness/elastic/elastic_common.go", "harness/elastic/c10_elastic.go"], "mode": "int", "contracts": ["byteslice", "ringbuffer"],
         "extra": [("pkg/buffer/ring", "harness/ring/ring_common.go"), ("pkg/buffer/ring", "harness/ring/ring_export.go"),
                   ("pkg/buffer/linkedlist", "harness/linkedlist/list_common.go"), ("pkg/buffer/linkedlist", "harness/linkedlist/list_export.go")],
         "cfg": {"vcfg": {"nodes": 1, "reader_calls": 2, "segs": 2}}, "cfg_thorough": {"vcfg": {"nodes": 2, "reader_calls": 2, "segs": 3}}},
    ],
}

PROPS["C12"] = {
    "level": "other",
    "level_text": "Symbolic execution of the real byteslice.Pool Get/Put/index (bit-vector arithmetic over all sizes/capacities up to 2^31 and all slice shapes inside a larger allocation) and of the real ring-buffer pool Get/Put, with sync.Pool as a nondeterministic exclusive hand-out; z3 decides length/capacity/no-overreach/no-double-hand-out obligations. Ownership of pooled memory by ring/list buffers (no use after Put, no double Put) is checked as a ghost oracle inside the C09/C10/C11 harnesses.",
    "level_note": "Trusted: go/ssa lowering, SSA->SMT translation, z3, and sync.Pool's contract (an element is handed to exactly one Get; GC may drop elements) - goroutine interleavings inside sync.Pool are not encoded. The connection-level consequence (zone strings of net.TCPAddr put into the pool by conn.release) is checked in the gnet-package unit.",
    "design_ref": "DESIGN.md section 5 (C12)",
    "explanation": "Real pool code executed symbolically; the slice given to Put is an arbitrary window (offset, len, cap) of a larger allocation so that sub-slices and re-sliced tails are covered.",
    "bounds": {"sizes": "[1, 2^31] (requests above MaxInt32 bypass the pool by design)", "pool_history": "<= 1 Put followed by <= 2 Gets per pool (one inductive hand-back/hand-out step)"},
    "outside": ["concurrent Get/Put (delegated to sync.Pool)", "GC emptying pools (covered by the 'Get may return nil' alternative)"],
    "assumptions": ["sync.Pool exclusivity", "calibrate() havoc'ed"],
    "units": [
        {"name": "byteslice", "pkgdir": "pkg/pool/byteslice", "files": ["harness/byteslice/c12_pool.go"], "mode": "bv"},
        # ownership of pooled memory by its holder: the C11 harnesses carry the ghost oracle "no queued segment is in the
        # pool / no memory is handed back twice" (vReleased, double-Put detection); they are re-run here for C12
        {"name": "linkedlist-ownership", "pkgdir": "pkg/buffer/linkedlist", "files": ["harness/linkedlist/list_common.go", "harness/linkedlist/c11_list.go"], "mode": "int", "contracts": ["byteslice"],
         "cfg": {"vcfg": {"nodes": 2, "reader_calls": 2}}, "cfg_thorough": {"vcfg": {"nodes": 3, "reader_calls": 3}}},
        "__LOOP_ZONE__",
        {"name": "rbpool", "pkgdir": "pkg/pool/ringbuffer", "files": ["harness/rbpool/c12_rbpool.go"], "mode": "int", "contracts": ["byteslice", "rb_calibrate_havoc"],
         "extra": [("pkg/buffer/ring", "harness/ring/ring_common.go"), ("pkg/buffer/ring", "harness/ring/ring_export.go")]},
    ],
}

PROPS["C17"] = {
    "level": "other",
    "level_text": "Bounded symbolic execution of the real conversion code in pkg/socket (IPToSockaddr, SockaddrTo*Addr, zone index<->name incl. itod/dtoi, net.IP.To4/To16) over symbolic IP bytes, lengths 0..20, ports, zone ids < 0xFFFFFF and a symbolic two-entry interface table; round-trip obligations discharged by z3.",
    "level_note": "Trusted: go/ssa lowering, SSA->SMT translation (counterexamples replayed natively), z3. net.InterfaceByName/ByIndex are an environment stub (two interfaces with symbolic indices), net.IPv4 is modelled by its specification, byteslice pool by the C12 contract. Truthful reporting on live connections (RemoteAddr/LocalAddr of accepted connections, zone strings recycled through the pool) is checked in the gnet-package unit.",
    "design_ref": "DESIGN.md section 5 (C17)",
    "explanation": "Round trips net.Addr -> unix.Sockaddr -> net.Addr and back, with content compared pointwise at a free byte index.",
    "bounds": {"ip_length": "0..20 bytes", "zone": "'', a table interface name, or the decimal form of any id in [1, 0xFFFFFF) without interface", "interfaces": "2 with symbolic distinct indices"},
    "outside": ["zone ids >= 0xFFFFFF (dtoi refuses them, mirroring package net)", "name resolution", "what the kernel reports"],
    "assumptions": ["interface table stub", "net.IPv4 specification stub"],
    "units": [
        {"name": "socket", "pkgdir": "pkg/socket", "files": ["harness/socket/c17_sockaddr.go"], "mode": "int", "contracts": ["byteslice", "net_ipv4"], "unwind": 12,
         "stub_values": {"github.com/panjf2000/gnet/v2/pkg/socket.maxListenerBacklog": 128},
         "rewrites": {"pkg/socket/sockaddr.go": _textual_rewrite([("net.InterfaceByName(", "vstubInterfaceByName("), ("net.InterfaceByIndex(", "vstubInterfaceByIndex(")])}},
    ],
}

GNET_SKIP_FNS = []
GNET_STUB_VALUES = {"github.com/panjf2000/gnet/v2/pkg/socket.maxListenerBacklog": 128}

PROPS["C15"] = {
    "level": "other",
    "level_text": "Symbolic execution of the real load-balancer code on N real eventloop objects: N concrete per path (1..16 quick, 1..128 thorough), round-robin cursor (< 2^63), per-loop connection counts and the remote-address string (CRC32 as an uninterpreted pure function) symbolic; obligations discharged by z3.",
    "level_note": "Trusted: go/ssa lowering, SSA->SMT translation (counterexamples replayed natively), z3. hash/crc32.ChecksumIEEE is an uninterpreted pure function (any uint32, equal for equal input). That the loop chosen by next() is the loop whose callbacks run is checked for accept0/accept in the loop-step unit (C04/C07 harness family).",
    "design_ref": "DESIGN.md section 5 (C15)",
    "explanation": "Real next()/register()/hash() executed from go/ssa for every loop count within the bound.",
    "bounds": {"loops": "N in 1..16 (quick) / 1..128 (thorough)", "round_robin_cursor": "< 2^63", "k*N unrolling": "N<=4, k<=3", "address": "<= 64 bytes"},
    "outside": ["32-bit int targets (negating MinInt32)", "cursor >= 2^63"],
    "assumptions": ["crc32 uninterpreted"],
    "units": [
        {"name": "gnet-lb", "pkgdir": ".", "files": ["harness/gnet/c15_lb.go"], "mode": "int", "unwind": 300, "contracts": ["byteslice", "ringbuffer"],
         "stub_values": GNET_STUB_VALUES,
         "rewrites": {"load_balancer.go": _textual_rewrite([("netAddr.String()", "vstubAddrString(netAddr)")], must=False)},
         "cfg": {"vcfg": {"maxN": 16, "maxNcount": 4, "maxNlc": 6}}, "cfg_thorough": {"vcfg": {"maxN": 128, "maxNcount": 4, "maxNlc": 8}}},
    ],
}


def _gnet_go_rewrite(src, out):
    s = open(src).read()
    # every strings.ReplaceAll call of the file is redirected (not only the one on protoAddr): when the escaping step is
    # rewritten or removed the harness still builds and the escape-before-parse oracle decides (round-4 change C16-r4m1)
    s = s.replace("strings.ReplaceAll(", "vstubReplaceAll(")
    # likewise path.Join: if the join/clean step is rewritten the stub is simply never called and the oracle
    # "the Unix endpoint is the joined, cleaned path" decides (round-5 change C16-r5m1)
    s = s.replace("path.Join(u.Host,", "vstubPathJoin(u.Host,")
    for a, b in [("url.Parse(", "vstubURLParse("), ("runtime.NumCPU()", "vstubNumCPU()")]:
        if a not in s:
            raise RuntimeError("rewrite anchor %r not found in gnet.go" % a)
        s = s.replace(a, b)
    s += "\n// keep the imports of the redirected calls alive\nvar (\n\t_ = url.Parse\n\t_ = path.Join\n\t_ = strings.ReplaceAll\n)\n"
    open(out, "w").write(s)


GNET_OPAQUE = ["github.com/panjf2000/gnet/v2/pkg/logging.", "context.", "golang.org/x/sync/errgroup."]

PROPS["C16"] = {
    "level": "other",
    "level_text": "Symbolic execution (bit-vector back end, all 64-bit option values) of the real option normalisation in createListeners and NewClient and of determineEventLoops; and of parseProtoAddr's dispatch for every (scheme, host, path) a URL parser can return (url.Parse/path.Join as contract stubs). z3 decides each obligation.",
    "level_note": "NOT covered by the solver: the text-level behaviour of net/url.Parse (percent-escaping of zones, bracket handling) - url.Parse, strings.ReplaceAll and path.Join are environment stubs constrained only by their type contract, so 'the endpoint is exactly as written' is reduced to 'the endpoint is the parser's Host / the joined path'. Trusted: go/ssa lowering, SSA->SMT translation, z3; logging/context/errgroup calls are opaque (no effect on options).",
    "design_ref": "DESIGN.md section 5 (C16)",
    "explanation": "Option fields and NumCPU are unconstrained 64-bit symbols; specifications (power of two as 63-way disjunction) are written independently.",
    "bounds": {"options": "full 64-bit range", "url": "scheme in {7 supported, '', 'http'}, host/path symbolic <= 6 bytes"},
    "outside": ["net/url.Parse text handling", "Windows branch of parseProtoAddr"],
    "assumptions": ["url.Parse / path.Join / strings.ReplaceAll stubs", "logging opaque"],
    "units": [
        {"name": "gnet-opts", "pkgdir": ".", "files": ["harness/gnet/c16_opts.go"], "mode": "bv", "contracts": ["byteslice", "ringbuffer"],
         "stub_values": GNET_STUB_VALUES, "opaque_calls": GNET_OPAQUE, "skip_pkgs": ["github.com/panjf2000/gnet/v2/pkg/logging"],
         "rewrites": {"gnet.go": _gnet_go_rewrite}},
    ],
}


def _scale_columns(n):
    def gen(src, out):
        s = open(src).read()
        a = "ConnMatrixColumnMax    = math.MaxUint16 + 1"
        if a not in s:
            raise RuntimeError("gfd.go: ConnMatrixColumnMax definition not found")
        open(out, "w").write(s.replace(a, "ConnMatrixColumnMax    = %d // scaled by the verification overlay" % n))
    return gen


_C14_COMMON = {"mode": "int", "unwind": 40, "contracts": ["byteslice", "ringbuffer"], "stub_values": GNET_STUB_VALUES,
               "opaque_calls": GNET_OPAQUE, "skip_pkgs": ["github.com/panjf2000/gnet/v2/pkg/logging"]}

PROPS["C14"] = {
    "level": "other",
    "level_text": "Bounded symbolic execution of the real registry code of BOTH build variants (map; -tags gc_opt compacting matrix) over symbolic descriptor numbers and symbolic operation sequences (add / remove any live / iterate with and without removal), compared with a reference association list at a free probe descriptor after every step; the matrix density/reverse-index invariant is asserted after every step.",
    "level_note": "Histories are bounded (<= 4 operations over <= 3 live connections quick; 6/4 thorough; iteration over <= 4/6 connections). The 65536-column row boundary is exercised in a SCALED configuration (ConnMatrixColumnMax rewritten to 4 in an overlay copy of internal/gfd/gfd.go, regenerated every run) so that row crossings happen within the bound; the true constant is run with populations inside one row. Trusted: go/ssa lowering, SSA->SMT translation (counterexamples replayed natively), z3.",
    "design_ref": "DESIGN.md section 5 (C14)",
    "explanation": "Real addConn/delConn/getConn/iterate/loadCount executed from go/ssa; map keys and descriptor numbers symbolic.",
    "bounds": {"history": "<= 4 ops / <= 3 live (quick), <= 6 ops / <= 4 live (thorough)", "iteration_population": "<= 4 (quick) / 6 (thorough)", "columns": "scaled to 4 for row crossing; 65536 with <= 3 connections"},
    "outside": ["populations beyond the bound", "concurrent access (the registry is loop-confined)"],
    "assumptions": ["live descriptors are pairwise distinct (kernel)"],
    "units": [
        dict(_C14_COMMON, name="map", pkgdir=".", files=["harness/gnet/c14_pick.go", "harness/gnet/c14_registry.go", "harness/gnet/c14_map.go"],
             cfg={"vcfg": {"steps": 4, "maxlive": 3, "maxpop": 4}}, cfg_thorough={"vcfg": {"steps": 6, "maxlive": 4, "maxpop": 6}}),
        dict(_C14_COMMON, name="matrix-scaled", pkgdir=".", tags="gc_opt", mode="bv", files=["harness/gnet/c14_pick.go", "harness/gnet/c14_registry.go", "harness/gnet/c14_matrix.go"],
             rewrites={"internal/gfd/gfd.go": _scale_columns(2)},
             cfg={"vcfg": {"steps": 4, "maxlive": 3, "maxpop": 4}}, cfg_thorough={"vcfg": {"steps": 6, "maxlive": 5, "maxpop": 6}}),
        dict(_C14_COMMON, name="matrix-true-constant", pkgdir=".", tags="gc_opt", tier="thorough", mode="bv", files=["harness/gnet/c14_pick.go", "harness/gnet/c14_registry.go", "harness/gnet/c14_matrix.go"],
             cfg={"vcfg": {"steps": 3, "maxlive": 2, "maxpop": 2}}, cfg_thorough={"vcfg": {"steps": 3, "maxlive": 2, "maxpop": 2}}),
    ],
}


# ------------------------------------------------------------------ loop-step world (ghost kernel redirections)
_VK_IMPORT = 'import vk "github.com/panjf2000/gnet/v2/internal/vk"'


def _vk_redirect(pairs, extra_tail="", lenient=False):
    """scratch copy of a repo file with its system calls redirected to the ghost kernel (internal/vk)"""
    def gen(src, out):
        import re
        s = open(src).read()
        n = 0
        for a, b in pairs:
            n += s.count(a)
            s = s.replace(a, b)
        if n == 0:
            if lenient:
                return False
            raise RuntimeError("no redirection anchor found in " + src)
        # add the vk import right after the package clause
        s = re.sub(r"(?m)^(package \w+)$", r"\1\n\n" + _VK_IMPORT, s, count=1)
        # imports whose last use was redirected away must stay alive
        for ident, path, keep in (("unix", '"golang.org/x/sys/unix"', "var _ = unix.EAGAIN"),
                                  ("socket", '"github.com/panjf2000/gnet/v2/pkg/socket"', "var _ = socket.SockaddrToUDPAddr"),
                                  ("unsafe", '"unsafe"', "var _ unsafe.Pointer")):
            if path in s and (ident + ".") not in s.replace(path, ""):
                s += "\n" + keep + " // keep the import alive (verification overlay)\n"
        open(out, "w").write(s + extra_tail)
    return gen


_LOOP_REWRITES = {
    "eventloop_unix.go": _vk_redirect([("unix.Read(", "vk.Read("), ("unix.Write(", "vk.Write("), ("unix.Close(", "vk.Close("), ("unix.Recvfrom(", "vk.Recvfrom(")]),
    "connection_unix.go": _vk_redirect([("unix.Write(", "vk.Write("), ("unix.Sendto(", "vk.Sendto("), ("unix.Send(", "vk.Send("), ("socket.Dup(c.fd)", "vk.Dup(c.fd)")]),
    "acceptor_unix.go": _vk_redirect([("socket.Accept(", "vk.Accept("), ("unix.Close(", "vk.Close(")]),
    "listener_unix.go": _vk_redirect([("unix.Close(", "vk.Close("), ("socket.Dup(ln.fd)", "vk.Dup(ln.fd)")]),
    "pkg/io/io_linux.go": _vk_redirect([("unix.Writev(", "vk.Writev(")]),
    "pkg/netpoll/poller_epoll_default.go": _vk_redirect(
        [("unix.EpollCtl(", "vk.EpollCtl("), ("unix.EpollWait(", "vk.EpollWait("), ("unix.Write(p.efd", "vk.Write(p.efd"), ("unix.Read(p.efd", "vk.Read(p.efd"), ("unix.Close(", "vk.Close("),
         ("b        = (*(*[8]byte)(unsafe.Pointer(&u)))[:]", "b        = []byte{1, 0, 0, 0, 0, 0, 0, 0}")]),
}

# every other file of the root package: a raw descriptor system call anywhere in it goes to the ghost kernel too (so that
# a change which adds one, e.g. a close(2) in the reactor, is seen by the descriptor ledger instead of escaping it)
_LOOP_REWRITE_GLOBS = [(".", _vk_redirect([("unix.Read(", "vk.Read("), ("unix.Write(", "vk.Write("), ("unix.Close(", "vk.Close("),
                                            ("unix.Recvfrom(", "vk.Recvfrom("), ("unix.Sendto(", "vk.Sendto("), ("unix.Send(", "vk.Send(")], lenient=True))]

_LOOP_EXTRA = [("internal/vk", "harness/vk/vk.go"), ("pkg/netpoll", "harness/netpoll/export.go"),
               ("pkg/buffer/ring", "harness/ring/ring_common.go"), ("pkg/buffer/ring", "harness/ring/ring_export.go"),
               ("pkg/buffer/linkedlist", "harness/linkedlist/list_common.go"), ("pkg/buffer/linkedlist", "harness/linkedlist/list_export.go"),
               ("pkg/buffer/elastic", "harness/elastic/elastic_common.go"), ("pkg/buffer/elastic", "harness/elastic/export.go")]

_LOOP_COMMON = {"pkgdir": ".", "mode": "int", "unwind": 8, "contracts": ["byteslice", "ringbuffer", "net_ipv4", "gnet_env"], "stub_values": GNET_STUB_VALUES,
                "opaque_calls": GNET_OPAQUE + ["fmt.", "runtime.", "os.RemoveAll", "time."], "skip_pkgs": ["github.com/panjf2000/gnet/v2/pkg/logging"],
                "extra": _LOOP_EXTRA, "rewrites": _LOOP_REWRITES, "rewrite_globs": _LOOP_REWRITE_GLOBS}

PROPS["C08"] = {
    "level": "other",
    "level_text": "Bounded symbolic execution of the real readUDP / Write / SendTo / Writev path on a UDP listener over a ghost kernel holding a datagram of symbolic length (0..65507), content and source address; two consecutive datagrams; z3 decides every obligation.",
    "level_note": "The kernel is a stub (one datagram waiting, recvfrom truncates to the buffer, sendto records destination and bytes); concurrent senders are the kernel's queueing and are outside; IPv4 sources with symbolic sizes/content in the main harnesses, two consecutive IPv6 senders (symbolic 16-byte addresses and ports, 2-byte payloads) and a zero-copy AsyncWrite echo in harnesses of their own. Trusted: go/ssa lowering, SSA->SMT translation, z3.",
    "design_ref": "DESIGN.md section 5 (loop-step family, C08)",
    "explanation": "readUDP executed from go/ssa with system calls redirected to the ghost kernel in scratch copies of the calling files.",
    "bounds": {"datagram": "0..65507 bytes", "read_buffer": "1..2^31", "events": "3 consecutive readUDP calls"},
    "outside": ["arrival interleavings of several senders (kernel queue)", "IPv6 zones on datagram sources (conversion: C17)"],
    "assumptions": ["ghost kernel contract for recvfrom/sendto"],
    "units": [dict(_LOOP_COMMON, name="loop-udp", files=["harness/gnet/vloop_world.go", "harness/gnet/c14_pick.go", "harness/gnet/c08_udp.go"])],
}

PROPS["C01"] = {
    "level": "other",
    "level_text": "Bounded symbolic execution of one read event of the real I/O path (eventloop.read, conn.processIO, conn.Read/Next/Peek/Discard/WriteTo, inbound elastic ring buffer, real poller Trigger) from an arbitrary valid connection state over a ghost kernel with symbolic pending bytes, segmentation (short reads in LT), FIN and chunk limit; the handler's view is compared with the abstract stream inbound++pending at a free position; the representation invariant is re-proved, so a pass is inductive over event histories.",
    "level_note": "One event per harness; <= 1 successful read(2) call per event in the generic LT/ET/RDHUP harnesses of the quick tier (2 in the thorough tier) with sizes <= 2^31, plus the drain-until-EOF harness with 3 data reads and sizes <= 4; the level-triggered harness starts from an arbitrary inbound ring, the edge-triggered ones from an empty one (the arbitrary-ring ET configuration with 2 reads did not finish in 100 min and is not registered); the kernel is a stub with the contract stated in DESIGN.md (LT: any non-empty prefix; ET: exactly min(pending, len), new data raises a new edge). Configurations: LT / ET+chunk, default build (poll_opt and gc_opt differ only in dispatch/registry and are covered by C14 / thorough). Trusted: go/ssa lowering, SSA->SMT translation, z3, ghost kernel contract.",
    "design_ref": "DESIGN.md section 5 (loop-step family, C01)",
    "explanation": "Real framework code from go/ssa, system calls redirected to the ghost kernel (internal/vk) in scratch copies of the calling files.",
    "bounds": {"reads_per_event": "1 quick / 2 thorough; 3 in VH_C01_RdHupDrain3 (sizes <= 4)", "sizes": "<= 2^31", "handler": "one of none/Read/Next/Peek+Discard/WriteTo per event with symbolic sizes"},
    "outside": ["real kernel behaviour beyond the stub contract", "cross-event schedules beyond the reactor harness (covered inductively by the invariant; the reactor harness runs the ET chunk-limit follow-up chain with sizes <= 3 / 4)"],
    "assumptions": ["ghost kernel contract", "pool contracts (C12)"],
    "units": [dict(_LOOP_COMMON, name="loop-inbound", files=["harness/gnet/vloop_world.go", "harness/gnet/c01_inbound.go", "harness/gnet/c01_reactor.go"], cfg={"vcfg": {"reads": 1, "nodes": 1, "any_inbound_et": 0}}, cfg_thorough={"vcfg": {"reads": 2, "nodes": 1, "any_inbound_et": 0}})],
}

PROPS["C04"] = {
    "level": "other",
    "level_text": "Bounded symbolic execution of one lifecycle event of the real loop code (eventloop.close/read/wake/closeConns, conn.processIO, the Close/Wake/AsyncWrite task closures run through the real poller queue) from an arbitrary valid connection state, for every close cause, with handlers that close synchronously inside OnTraffic/OnClose, and for requests reaching a closed connection whose descriptor number was re-used; plus the real reactor functions eventloop.run/orbit with the real Poller.Polling over a scripted epoll_wait (a batch of connection/listener events, then the shutdown task): stale events, accept inside a batch, closeConns on exit; ghost callback counters and the descriptor ledger are the oracle.",
    "level_note": "One event per harness (the representation invariant makes a pass inductive over event histories); interleavings of several goroutines posting close requests are C03's subject (the tasks are executed here in queue order). Trusted: go/ssa lowering, SSA->SMT translation, z3, ghost kernel contract.",
    "design_ref": "DESIGN.md section 5 (loop-step family, C04)",
    "explanation": "Real framework code from go/ssa over the ghost kernel.",
    "bounds": {"events": "1 per loop-step harness; reactor harnesses: one epoll_wait batch of <= 2 events + the shutdown wake-up", "reads_per_event": 1, "writes_per_event": 2},
    "outside": ["cross-goroutine races between close causes (C03/C05)", "batches of more than two events, more than one batch before shutdown"],
    "assumptions": ["ghost kernel contract", "pool contracts (C12)"],
    "units": [dict(_LOOP_COMMON, name="loop-lifecycle", files=["harness/gnet/vloop_world.go", "harness/gnet/c14_pick.go", "harness/gnet/c04_lifecycle.go", "harness/gnet/c04_batch.go"], cfg={"vcfg": {"nodes": 1}})],
}

PROPS["C02"] = {
    "level": "other",
    "level_text": "Bounded symbolic execution of one outbound operation of the real I/O path (conn.write/writev/open, asyncWrite(v) tasks through the real poller queue, eventloop.write, the real elastic ring+list buffer) from an arbitrary valid outbound-buffer state over a ghost kernel that accepts any prefix; conservation and order of wire++buffer are checked at a free position, LT write-interest and ET re-flush obligations included; the invariant is re-proved (inductive over operation histories).",
    "level_note": "One operation per harness; <= 2 write(2)/writev(2) calls per event (quick); payload sizes <= 2^31; Writev with 1..2 segments plus the concrete 1025-segment case; thorough: 3 write calls per event and an arbitrary outbound-buffer shape in every harness (the configuration with 2 list nodes and 3 segments did not finish in 90 min and is not registered); kernel = stub contract (short write => socket buffer full; ET EAGAIN after short write). Eventual drain ('never remains unsent forever') is reduced to the one-step progress/re-arm obligations plus the reactor harness (real run()+Polling: request, reply <= 3 bytes by Write/Writev/AsyncWrite against a kernel taking any prefix, EPOLLOUT - in ET mode only as a transition from a full socket - and eventfd events until the loop goes idle; thorough: small ET chunk limit and a unit with iovMax scaled from 1024 to 1 so that a flush needs three follow-up rounds). Trusted: go/ssa lowering, SSA->SMT translation, z3.",
    "design_ref": "DESIGN.md section 5 (loop-step family, C02)",
    "explanation": "Real framework code from go/ssa over the ghost kernel.",
    "bounds": {"operations": 1, "writes_per_event": 2, "writev_segments": "1..2 (+1025 concrete)", "sizes": "<= 2^31"},
    "outside": ["real kernel behaviour beyond the stub contract", "multi-goroutine issue order (C03)"],
    "assumptions": ["ghost kernel contract", "pool contracts (C12)"],
    "units": [dict(_LOOP_COMMON, name="loop-outbound", files=["harness/gnet/vloop_world.go", "harness/gnet/c14_pick.go", "harness/gnet/c02_outbound.go", "harness/gnet/c02_reactor.go"], cfg={"vcfg": {"writes": 2, "nodes": 1, "segs": 2, "any_shape": 0}}, cfg_thorough={"vcfg": {"writes": 3, "nodes": 1, "segs": 2, "any_shape": 1}}, skip="VH_C02_ReactorFollowUpChain")],
}

PROPS["C18"] = {
    "level": "other",
    "level_text": "Bounded symbolic execution of single events of the real I/O path with ONE injected system-call failure (symbolic call site among the calls the event makes, symbolic errno from a realistic set) plus the accept/registration error paths; z3 decides isolation obligations: failed connection closed once with a non-nil error and its descriptor released, no engine-stopping result, bystander connection untouched, retryable conditions invisible.",
    "level_note": "One fault per event (pairs of faults are outside the quick bound); fault sites = every redirected call the event reaches (read, write, writev, epoll_ctl, close, accept); errno set {ECONNRESET, EPIPE, ETIMEDOUT, EBADF, ENOMEM, EINVAL, ENOBUFS (+EINTR mapped)}; epoll_wait EINTR belongs to the Polling loop (C03). Trusted: go/ssa lowering, SSA->SMT translation, z3, ghost kernel.",
    "design_ref": "DESIGN.md section 5 (loop-step family, C18)",
    "explanation": "Real framework code from go/ssa over the ghost kernel with fault injection.",
    "bounds": {"faults_per_event": "1 (2 in the reactor-batch harness)", "events": "readable+reply write / writable flush / async write(v) task / accept (both reactor modes) / close sequence for three causes / farewell write inside OnClose / one epoll_wait batch of two readable connections through the real run()+Polling"},
    "outside": ["pairs of faults", "epoll_wait failures"],
    "assumptions": ["ghost kernel contract"],
    "units": [dict(_LOOP_COMMON, name="loop-fault", files=["harness/gnet/vloop_world.go", "harness/gnet/c14_pick.go", "harness/gnet/c18_fault.go"], cfg={"vcfg": {"nodes": 1}})],
}


def _gnet_stop_rewrite(src, out):
    s = open(src).read()
    a = "if e.eng.isShutdown() {\n\t\t\treturn nil"
    if a not in s:
        raise RuntimeError("gnet.go: Stop poll loop anchor not found")
    open(out, "w").write(s.replace(a, "if vIsShutdownPoll(e.eng) {\n\t\t\treturn nil"))


PROPS["C19"] = {
    "level": "other",
    "level_text": "Bounded symbolic execution of the real control API (Engine.Validate/CountConnections/Dup/DupListener/Register/Stop, eventloop.Register/Enroll/Execute argument checks, the registration task's completion callback) over every handle state; Stop's poll loop runs with the terminal flag flipping at a nondeterministic poll and a context that may already have ended.",
    "level_note": "Sequential only: calls racing with an ongoing shutdown from several goroutines and the goroutine/channel hand-off of Register/Enroll through the ants pool are NOT covered ('exactly one result' is reduced to: the registration task invokes its completion callback exactly once on every path). Stop's loop: the ticker is an opaque channel, isShutdown() inside the loop is redirected to a stub that may complete the shutdown at any poll (monotone). Trusted: go/ssa lowering, SSA->SMT translation, z3.",
    "design_ref": "DESIGN.md section 5 (C19)",
    "explanation": "Real gnet.go / eventloop_unix.go code from go/ssa; channels and select are executed by a minimal sequential channel model.",
    "bounds": {"stop_poll_iterations": "<= 8 (unwinding bound, environment-driven)", "handle_states": 4},
    "outside": ["concurrent control calls", "Register/Enroll worker goroutine and result channel on the success path (the error paths of the Enroll worker are executed with the pool's Submit redirected to a synchronous call: exactly one result, then the channel is closed)"],
    "assumptions": ["time.Ticker opaque", "shutdown completion modelled as a monotone flag"],
    "units": [dict(_LOOP_COMMON, name="control", files=["harness/gnet/vloop_world.go", "harness/gnet/c14_pick.go", "harness/gnet/c19_control.go"],
                   rewrites=dict(_LOOP_REWRITES, **{"gnet.go": _gnet_stop_rewrite}), cfg={"vcfg": {"nodes": 1}})],
}

PROPS["C13"] = {
    "conc": True,
    "engine": "symgo-conc",
    "level": "model_checking",
    "level_text": "Bounded model checking of the REAL Enqueue/Dequeue/Length/IsEmpty code (go/ssa, retry loops unrolled, interleaving symbolic): for each thread configuration one SMT formula covers every round-robin schedule with R rounds (context-switch points are bit-vector variables, i.e. all interleavings with at most R*T-1 context switches in that order, at the granularity of single atomic operations and plain shared accesses). Linearizability is checked observationally: some order of the operations consistent with real-time precedence and program order must replay on a sequential FIFO with the observed results; Length/IsEmpty are evaluated by the real code at quiescence.",
    "level_note": "Bounds: T <= 4 threads, <= 6 operations, R = 3 rounds (thorough: R = 4 for three threads), retry loops unrolled U times with the unwinding obligation discharged by the solver (never assumed). Outside: more rounds/operations; ABA under manual memory reuse (nodes are never recycled; the encoder allocates a fresh object per &node{} exactly like the code). sync/atomic is sequentially consistent (Go memory model). Counterexample schedules are written to the replay file with the effective steps per segment.",
    "design_ref": "DESIGN.md sections 2.3 and 5 (C13)",
    "technique": "bounded model checking of go/ssa thread programs with symbolic round-robin schedules (Lazy-CSeq style) in z3 QF_BV",
    "explanation": "Engine B: thread programs are generated from the go/ssa of pkg/queue by guarded symbolic execution; the schedule formula is regenerated from the current source on every run.",
    "bounds": {"threads": "<= 4", "operations": "<= 6", "rounds": "3 (quick), 4 (thorough, 3 threads)", "unwind": "3..5, checked"},
    "outside": ["more context switches than R*T-1", "more than 6 operations"],
    "assumptions": ["sync/atomic operations are sequentially consistent single steps", "GC: nodes are never reused while referenced"],
    "units": [
        {"name": "queue", "pkgdir": "pkg/queue", "files": ["harness/queue/c13_queue.go"], "mode": "int", "immutable_globals": ["vq", "vTasks"],
         "configs": [
             {"name": "A_EE_DD", "threads": ["VT_A_P", "VT_A_C"], "rounds": 3, "unwind": 3},
             {"name": "D_E_E_DD", "threads": ["VT_D_P1", "VT_D_P2", "VT_D_C"], "rounds": 3, "unwind": 3},
             {"name": "C_EE_D_DD", "threads": ["VT_C_P", "VT_C_C1", "VT_C_C2"], "rounds": 3, "unwind": 4},
             {"name": "B_EE_E_DDD", "threads": ["VT_B_P1", "VT_B_P2", "VT_B_C"], "rounds": 3, "unwind": 3, "tier": "thorough"},
             {"name": "E_EE_E_DD_D", "threads": ["VT_E_P1", "VT_E_P2", "VT_E_C1", "VT_E_C2"], "rounds": 3, "unwind": 4, "tier": "thorough"},
         ],
         "extra_fns": ["VT_Quiescent"]},
    ],
}


def _netpoll_conc_rewrite(src, out):
    import re
    s = open(src).read()
    n = 0
    for a, b in [("unix.EpollWait(", "vkEpollWait("), ("unix.Write(p.efd", "vkEfdWrite(p.efd"), ("unix.Read(p.efd", "vkEfdRead(p.efd"),
                 ("b        = (*(*[8]byte)(unsafe.Pointer(&u)))[:]", "b        = []byte{1, 0, 0, 0, 0, 0, 0, 0}")]:
        n += s.count(a)
        s = s.replace(a, b)
    if n < 3:
        raise RuntimeError("poller_epoll_default.go: redirection anchors not found")
    if "unsafe." not in s.replace('"unsafe"', ""):
        s += "\nvar _ unsafe.Pointer\n"
    open(out, "w").write(s)


def _scale_const(name, val):
    def gen(src, out):
        import re
        s = open(src).read()
        s2, n = re.subn(r"(?m)^(\s*%s\s*=\s*)\d+" % name, r"\g<1>%d" % val, s)
        if n != 1:
            raise RuntimeError("%s: constant %s not found" % (src, name))
        open(out, "w").write(s2)
    return gen


PROPS["C03"] = {
    "conc": True,
    "engine": "symgo-conc",
    "level": "model_checking",
    "level_text": "Bounded model checking of the REAL (*Poller).Trigger and (*Poller).Polling code with the real lock-free queues inlined (go/ssa, loops unrolled, symbolic round-robin schedule): for each producer/loop configuration one SMT formula covers every interleaving within the bound at the granularity of single atomic operations, plain shared accesses and the eventfd/epoll stubs. The liveness claim is checked in its safety form: no reachable state has all producers returned, the loop blocked in epoll_wait(-1) with no eventfd edge pending, and an accepted task not executed; plus at-most-once execution and issue order of one producer's high-priority tasks.",
    "level_note": "Kernel stub: eventfd registered edge-triggered = one 'edge pending' cell; write sets it, a blocking epoll_wait can only be passed while it is set and consumes it, epoll_wait(0) consumes it or returns 0. Bounds: <= 2 producers with <= 2 requests each, R = 3 rounds, the loop unrolled to a fixed number of outer/inner iterations whose sufficiency is discharged by the solver (query 'bound:'), InitPollEventsCap scaled to 2 and MaxAsyncTasksAtOneTime to 1 in the scaled configuration. queue.GetTask is a fresh object per call (sync.Pool exclusivity). What the executed task does (AsyncWrite etc.) is C02/C04. Trusted: go/ssa lowering, the encoder, z3, SC atomics.",
    "design_ref": "DESIGN.md sections 2.3 and 5 (C03)",
    "technique": "bounded model checking of go/ssa thread programs with symbolic round-robin schedules (Lazy-CSeq style) in z3 QF_BV",
    "explanation": "Engine B on pkg/netpoll: Trigger/Polling/Enqueue/Dequeue from go/ssa, system calls redirected to Go stubs over one shared cell.",
    "bounds": {"producers": "<= 2", "requests": "<= 3", "rounds": 3},
    "outside": ["kqueue pollers", "poll_opt build (thorough)", "eventfd counter overflow"],
    "assumptions": ["SC atomics", "eventfd/epoll stub contract", "sync.Pool exclusivity for tasks"],
    "units": [
        {"name": "netpoll", "pkgdir": "pkg/netpoll", "files": ["harness/netpoll/export.go", "harness/netpoll/c03_wakeup.go"], "mode": "int", "oracle": "wakeup", "immutable_globals": ["vp", "vSchedHook", "vBlockHook"], "replayer": "replay_netpoll",
         "rewrites": {"pkg/netpoll/poller_epoll_default.go": _netpoll_conc_rewrite, "pkg/netpoll/defs_poller_epoll.go": _scale_const("InitPollEventsCap", 2)},
         "skip_pkgs": ["github.com/panjf2000/gnet/v2/pkg/logging"],
         "configs": [
             {"name": "H0_loop", "threads": ["VT_P_H0", "VT_Loop"], "rounds": 3, "unwind": 3, "unwind_fn": {"Poller).Polling": 6}, "tasks": 1},
             {"name": "H0_H1_loop", "threads": ["VT_P_H0", "VT_P_H1", "VT_Loop"], "rounds": 3, "unwind": 3, "unwind_fn": {"Poller).Polling": 16}, "tasks": 2, "tier": "thorough"},
             {"name": "H0H1_loop", "threads": ["VT_P_H0H1", "VT_Loop"], "rounds": 3, "unwind": 3, "unwind_fn": {"Poller).Polling": 16}, "tasks": 2, "ordered": [(0, 1)], "tier": "thorough"},
             # the same configurations with the C13-justified atomic summary of the queue (link step and length step kept apart)
             {"name": "sum_H0_H1_loop", "threads": ["VT_P_H0", "VT_P_H1", "VT_Loop"], "rounds": 3, "unwind": 3, "unwind_fn": {"Poller).Polling": 16}, "tasks": 2, "queue_summary": True},
             {"name": "sum_H0H1_loop", "threads": ["VT_P_H0H1", "VT_Loop"], "rounds": 3, "unwind": 3, "unwind_fn": {"Poller).Polling": 16}, "tasks": 2, "ordered": [(0, 1)], "queue_summary": True},
             {"name": "sum_H0H1_H2_loop", "threads": ["VT_P_H0H1", "VT_P_H2", "VT_Loop"], "rounds": 3, "unwind": 3, "unwind_fn": {"Poller).Polling": 16}, "tasks": 3, "ordered": [(0, 1)], "queue_summary": True, "tier": "thorough"},
             {"name": "H0_L1_loop", "threads": ["VT_P_H0", "VT_P_L1", "VT_Loop"], "rounds": 3, "unwind": 3, "unwind_fn": {"Poller).Polling": 8}, "tasks": 2, "tier": "thorough"},
             {"name": "H0H1_H2_loop", "threads": ["VT_P_H0H1", "VT_P_H2", "VT_Loop"], "rounds": 3, "unwind": 4, "unwind_fn": {"Poller).Polling": 10}, "tasks": 3, "ordered": [(0, 1)], "tier": "thorough"},
         ]},
        {"name": "netpoll-scaled", "pkgdir": "pkg/netpoll", "files": ["harness/netpoll/export.go", "harness/netpoll/c03_wakeup.go"], "mode": "int", "oracle": "wakeup", "immutable_globals": ["vp", "vSchedHook", "vBlockHook"], "replayer": "replay_netpoll",
         "setup": "VT_SetupScaled",
         "rewrites": {"pkg/netpoll/poller_epoll_default.go": _netpoll_conc_rewrite,
                      "pkg/netpoll/defs_poller_epoll.go": lambda src, out: (_scale_const("InitPollEventsCap", 2)(src, out), _scale_const("MaxAsyncTasksAtOneTime", 1)(out, out))},
         "skip_pkgs": ["github.com/panjf2000/gnet/v2/pkg/logging"],
         "configs": [
             {"name": "scaled_L0L1_loop", "threads": ["VT_P_L0L1", "VT_Loop"], "rounds": 3, "unwind": 3, "unwind_fn": {"Poller).Polling": 11}, "tasks": 2, "tier": "thorough"},
             {"name": "sum_scaled_L0L1_loop", "threads": ["VT_P_L0L1", "VT_Loop"], "rounds": 3, "unwind": 3, "unwind_fn": {"Poller).Polling": 16}, "tasks": 2, "queue_summary": True},
             {"name": "sum_scaled_L0_L1_loop", "threads": ["VT_P_L0", "VT_P_L1", "VT_Loop"], "rounds": 3, "unwind": 3, "unwind_fn": {"Poller).Polling": 16}, "tasks": 2, "queue_summary": True},
             {"name": "scaled_L0_L1_loop", "threads": ["VT_P_L0", "VT_P_L1", "VT_Loop"], "rounds": 3, "unwind": 3, "unwind_fn": {"Poller).Polling": 8}, "tasks": 2, "tier": "thorough"},
         ]},
    ],
}

PROPS["C07"] = {
    "level": "other",
    "level_text": "Bounded symbolic execution of single events of the real loop code over a ghost kernel that keeps a descriptor ledger: every redirected system call (read, write, writev, epoll_ctl, close, accept, recvfrom, sendto, dup) asserts that the framework owns the descriptor number it passes, that nothing is closed twice and that user-owned (Dup) and foreign (re-used number) descriptors are never touched; run over the lifecycle events of C04 (all close causes, synchronous closes inside callbacks, stale requests after number re-use) plus close-with-unsent-output under a failing kernel, listener/poller close-once and Dup ownership.",
    "level_note": "One event per harness (inductive through the representation invariant 'opened <=> registered <=> descriptor owned and not closed'); 'closed at the latest when Run returns' is reduced to closeConns/closeEventLoops/Poller.Close releasing everything exactly once (the goroutine choreography of Run/stop is C06, not claimed). Client.EnrollContext and EventLoop.Enroll are executed up to and including the protocol dispatch with a user net.Conn of a kind gnet does not serve and one injected setsockopt failure (the worker-pool Submit is redirected to a synchronous call): every error return after socket.Dup must have closed the duplicate (DESIGN.md F11, fixed). The successful hand-off is executed for the TCP branch (harness type standing in for *net.TCPConn, the loop goroutine played by running the loop's queued tasks at the point where the worker waits); UnixConn/UDPConn branches are not executed. Trusted: go/ssa lowering, SSA->SMT translation, z3, ghost kernel.",
    "design_ref": "DESIGN.md section 5 (loop-step family, C07)",
    "explanation": "Ledger assertions live in the ghost kernel (internal/vk, labels C07.*) and are therefore evaluated on every path of every loop-step harness of this unit.",
    "bounds": {"events": 1, "writes_per_event": 3},
    "outside": ["enrol branches for *net.UnixConn/*net.UDPConn; the TCP branch runs with the harness connection type standing in for *net.TCPConn (textual rewrite of the type switch) and address resolution / net.Dial as harness stubs", "interleavings with other goroutines opening descriptors (modelled as 'the number is foreign-owned' pre-states)"],
    "assumptions": ["ghost kernel contract"],
    "units": [dict(_LOOP_COMMON, name="loop-fd", files=["harness/gnet/vloop_world.go", "harness/gnet/c14_pick.go", "harness/gnet/c04_lifecycle.go", "harness/gnet/c04_batch.go", "harness/gnet/c07_fd.go"], cfg={"vcfg": {"nodes": 1}})],
}


# units that need the loop-step world but belong to properties defined earlier
def _variant_units():
    # build variant gc_opt (compacting matrix registry) for the lifecycle/descriptor harnesses: thorough tier; the matrix
    # columns are scaled to 2 (overlay rewrite) so that the pre-states stay small
    gc = dict(_LOOP_COMMON, name="loop-lifecycle-gc_opt", tags="gc_opt", tier="thorough",
              files=["harness/gnet/vloop_world.go", "harness/gnet/c14_pick.go", "harness/gnet/c04_lifecycle.go", "harness/gnet/c04_batch.go"],
              rewrites=dict(_LOOP_REWRITES, **{"internal/gfd/gfd.go": _scale_columns(2)}), cfg={"vcfg": {"nodes": 1}})
    PROPS["C04"]["units"].append(gc)
    PROPS["C07"]["units"].append(dict(gc, name="loop-fd-gc_opt", files=gc["files"] + ["harness/gnet/c07_fd.go"]))


def _patch_units():
    zone_unit = dict(_LOOP_COMMON, name="loop-zone", files=["harness/gnet/vloop_world.go", "harness/gnet/c12_zone.go"], cfg={"vcfg": {"nodes": 1}})
    us = PROPS["C12"]["units"]
    PROPS["C12"]["units"] = [zone_unit if u == "__LOOP_ZONE__" else u for u in us]
    PROPS["C17"]["units"].append(dict(zone_unit, name="loop-zone-c17", files=zone_unit["files"] + ["harness/gnet/c14_pick.go", "harness/gnet/c17_accept.go"]))
    # the enrol paths: the worker pool runs the submitted function at once; the harness's connection type stands in for
    # *net.TCPConn in the protocol switch; resolving the peer's own address string and dialling are harness stubs; waiting
    # for the loop goroutine to run the registration = running the loop's queued tasks here (one legal schedule)
    enroll_pairs = [("socket.Dup(int(fd))", "vk.DupIn(int(fd))"), ("case *net.TCPConn:", "case *net.TCPConn, *vUserTCP:"),
                    ("socket.GetTCPSockAddr(c.RemoteAddr().Network(), c.RemoteAddr().String())", "vGetTCPSockAddr(c.RemoteAddr().Network(), c.RemoteAddr().String())"),
                    ("<-connOpened", "vAwaitOpened(el, connOpened)")]

    def el_enroll(src, out):
        _LOOP_REWRITES["eventloop_unix.go"](src, out)
        t = open(out).read()
        for a, b in enroll_pairs + [("goroutine.DefaultWorkerPool.Submit(func() {", "vSubmit(func() {"), ("net.Dial(addr.Network(), addr.String())", "vDial(addr.Network(), addr.String())")]:
            if a not in t:
                raise RuntimeError("eventloop_unix.go: enroll anchor not found: " + a)
            t = t.replace(a, b)
        open(out, "w").write(t + "\nvar _ = goroutine.DefaultWorkerPool // keep the import alive (verification overlay)\n")
    enroll_rw = dict(_LOOP_REWRITES, **{"eventloop_unix.go": el_enroll, "client_unix.go": _vk_redirect(enroll_pairs + [("socket.SetSendBuffer(", "vk.SockOpt("), ("socket.SetRecvBuffer(", "vk.SockOpt("), ("socket.SetNoDelay(", "vk.SockOpt("), ("unix.Close(", "vk.Close(")])})
    PROPS["C07"]["units"].append(dict(_LOOP_COMMON, name="loop-enroll", files=["harness/gnet/vloop_world.go", "harness/gnet/c14_pick.go", "harness/gnet/c07_enroll.go"], rewrites=enroll_rw, cfg={"vcfg": {"nodes": 1}}))
    def el_iov1(src, out):
        _LOOP_REWRITES["eventloop_unix.go"](src, out)
        t = open(out).read()
        if "const iovMax = 1024" not in t:
            raise RuntimeError("eventloop_unix.go: iovMax constant not found")
        open(out, "w").write(t.replace("const iovMax = 1024", "const iovMax = 1"))
    PROPS["C02"]["units"].append(dict(_LOOP_COMMON, name="loop-outbound-iov1", tier="thorough",
                                      files=["harness/gnet/vloop_world.go", "harness/gnet/c14_pick.go", "harness/gnet/c02_outbound.go", "harness/gnet/c02_reactor.go"],
                                      rewrites=dict(_LOOP_REWRITES, **{"eventloop_unix.go": el_iov1}), only="VH_C02_ReactorFollowUpChain",
                                      cfg={"vcfg": {"writes": 3, "nodes": 1, "segs": 2, "any_shape": 0, "iov_scaled": 1}}))
    for pid in ("C04", "C17"):
        PROPS[pid]["units"].append(dict(_LOOP_COMMON, name="loop-enroll-" + pid.lower(), files=["harness/gnet/vloop_world.go", "harness/gnet/c14_pick.go", "harness/gnet/c07_enroll.go"], rewrites=enroll_rw, cfg={"vcfg": {"nodes": 1}}))
    PROPS["C19"]["units"].append(dict(_LOOP_COMMON, name="loop-enroll-c19", files=["harness/gnet/vloop_world.go", "harness/gnet/c14_pick.go", "harness/gnet/c07_enroll.go"], rewrites=enroll_rw, cfg={"vcfg": {"nodes": 1}}))
    PROPS["C15"]["units"].append(dict(_LOOP_COMMON, name="loop-assign", files=["harness/gnet/vloop_world.go", "harness/gnet/c14_pick.go", "harness/gnet/c15_assign.go"], cfg={"vcfg": {"nodes": 1}}))


_patch_units()
_variant_units()
