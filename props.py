"""Property -> verification units. A unit = one gnet package (+build tags) with harness files injected by overlay."""

PROPS = {}

PROPS["C20"] = {
    "level": "other",
    "explanation": "Symbolic execution (bit-vector back end, full machine width) of the real go/ssa of pkg/math, byteslice.index, ringbuffer.index and internal/gfd against independently written specifications; the functions are loop-free so there is no unwinding bound.",
    "bounds": {"ints": "full 64-bit / 32-bit machine words (no restriction)", "loops": "none in code under test; spec loops are concrete (63 iterations)"},
    "outside": ["ClosestPowerOfTwo for n > 2^62 (no upper neighbour representable; function panics)", "32-bit platforms"],
    "assumptions": ["go/ssa lowering is faithful", "math/bits.Len* modelled as its specification (ite ladder)", "sync/atomic.AddUint32 is a plain add in a sequential harness"],
    "units": [
        {"name": "math", "pkgdir": "pkg/math", "files": ["harness/math/c20_math.go"], "mode": "bv"},
        {"name": "byteslice", "pkgdir": "pkg/pool/byteslice", "files": ["harness/byteslice/c20_index.go"], "mode": "bv"},
        {"name": "rbpool", "pkgdir": "pkg/pool/ringbuffer", "files": ["harness/rbpool/c20_index.go"], "mode": "bv"},
        {"name": "gfd", "pkgdir": "internal/gfd", "files": ["harness/gfd/c20_gfd.go"], "mode": "bv", "unskip_pkgs": ["internal"], "skip_pkgs": ["internal/abi", "internal/reflectlite", "internal/cpu", "internal/goarch", "internal/unsafeheader", "internal/byteorder"]},
    ],
}
